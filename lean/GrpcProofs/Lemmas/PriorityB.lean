/-
Helper lemmas for C39, part 2: the init timer of a child is armed only while the child has not
reported TRANSIENT_FAILURE since it was last READY/IDLE (and a stopped child carries no failure
mark), preserved by every operation.
-/
import GrpcProofs.Lemmas.Priority
namespace GrpcProofs.Lemmas.Priority
open GrpcModel.Priority

/-! ### the init timer is only armed for a child that has not failed since it was last READY/IDLE -/

def TI (c : Child) : Prop := (c.reportedTF = true → c.timer = none) ∧ (c.started = false → c.reportedTF = false)

def AllTI (s : St) : Prop := ∀ c ∈ s.children, TI c

theorem ti_reset (c : Child) : TI (resetChild c) := ⟨fun h => by simp [resetChild] at h, fun _ => rfl⟩

theorem ti_stopF (n : Nat) (c : Child) (h : TI c) : TI (stopF n c) := by
  unfold stopF; split
  · exact ti_reset c
  · exact h

theorem ti_stopAllF (l : List Nat) (c : Child) (h : TI c) : TI (stopAllF l c) := by
  unfold stopAllF; split
  · exact ti_reset c
  · exact h

theorem ti_startF (now : Int) (n : Nat) (c : Child) (h : TI c) : TI (startF now n c) := by
  unfold startF; split
  · next hc =>
    refine ⟨fun hr => ?_, fun hs => by simp at hs⟩
    have : c.reportedTF = false := h.2 hc.2
    simp [this] at hr
  · exact h

theorem ti_switchF (now : Int) (c : Child) (rest : List Nat) (x : Child) (h : TI x) : TI (switchF now c rest x) := by
  unfold switchF; split
  · exact ti_stopAllF rest x h
  · exact ti_startF now c.name _ (ti_stopAllF rest x h)

theorem ti_applyState (now : Int) (c : Child) (p : PState) (h : TI c) (hs : c.started = true) : TI (applyState now c p) := by
  unfold applyState
  simp only
  split
  · exact ⟨fun hr => by simp at hr, fun _ => rfl⟩
  · split
    · exact ⟨fun _ => rfl, fun hh => by simp [hs] at hh⟩
    · split
      · split
        · next hc =>
          refine ⟨fun hr => ?_, fun hh => by simp [hs] at hh⟩
          have : c.reportedTF = false := by simpa using hc.1
          simp [this] at hr
        · exact ⟨h.1, h.2⟩
      · exact ⟨h.1, h.2⟩

theorem allTI_of_map {s t : St} (h : AllTI s) (g : Child → Child) (hc : t.children = s.children.map g)
    (hg : ∀ x ∈ s.children, TI x → TI (g x)) : AllTI t := by
  intro c hc'
  rw [hc] at hc'
  obtain ⟨x, hx, rfl⟩ := List.mem_map.mp hc'
  exact hg x hx (h x hx)

theorem syncFrom_ti (s : St) (hn : (names s.children).Nodup) (h : AllTI s) (upd : Option Nat) (rest : List Nat) :
    AllTI (syncFrom s upd rest) := by
  induction rest with
  | nil => exact h
  | cons n rest' ih =>
    simp only [syncFrom]
    split
    · exact ih
    · next c hf =>
      split
      · have key : ∀ s1 : St, s1.children = s.children → s1.now = s.now → AllTI (switchTo s1 c rest') := by
          intro s1 hc1 hn1
          obtain ⟨w1, _⟩ := switchTo_spec s1 (by rw [hc1]; exact hn) c rest'
          rw [hc1] at w1
          exact allTI_of_map h _ w1 (fun x _ hx => ti_switchF _ c rest' x hx)
        split
        · exact key _ rfl rfl
        · exact key _ rfl rfl
      · exact ih

theorem sync_ti (s : St) (hn : (names s.children).Nodup) (h : AllTI s) (upd : Option Nat) : AllTI (sync s upd) :=
  syncFrom_ti s hn h upd s.prios

/-- the combined invariant -/
structure Good2 (s : St) : Prop where
  good : Good s
  ti : AllTI s

theorem handleChild_ti (s : St) (h : Good2 s) (n : Nat) (p : PState) : AllTI (handleChild s n p) := by
  unfold handleChild
  cases hf : findChild s n with
  | none => exact h.ti
  | some c =>
    obtain ⟨hcm, hcn⟩ := findChild_some hf
    by_cases hs : c.started = true
    · simp only [hs, Bool.not_true, Bool.false_eq_true, if_false]
      apply sync_ti
      · show (names (s.children.map _)).Nodup
        rw [names_map]; exact h.good.st.cn
        intro x; split
        · exact applyState_name _ _ _
        · rfl
      · apply allTI_of_map h.ti (fun x => if x.name = n then applyState s.now x p else x) rfl
        intro x hx hti
        split
        · next hxn =>
          have : x = c := eq_of_nodup_names h.good.st.cn hx hcm (hxn.trans hcn.symm)
          subst this
          exact ti_applyState _ _ _ hti hs
        · exact hti
    · have hs' : c.started = false := by simpa using hs
      simp only [hs', Bool.not_false, if_true]
      exact h.ti

theorem handleChild_good2 (s : St) (h : Good2 s) (n : Nat) (p : PState) : Good2 (handleChild s n p) :=
  ⟨handleChild_good s h.good n p, handleChild_ti s h n p⟩

theorem drain_good2 (fuel : Nat) (s : St) (h : Good2 s) : Good2 (drain fuel s) := by
  induction fuel generalizing s with
  | zero => exact h
  | succ k ih =>
    unfold drain
    split
    · exact h
    · next n p rest _ =>
      have hq : Good2 { s with queue := rest } := ⟨good_queue s h.good rest, h.ti⟩
      exact ih _ (handleChild_good2 _ hq n p)

theorem settle_good2 (s : St) (h : Good2 s) : Good2 (settle s) := drain_good2 _ s h

theorem stopChild_ti (s : St) (hn : (names s.children).Nodup) (h : AllTI s) (n : Nat) (imm : Bool) : AllTI (stopChild s n imm) := by
  obtain ⟨h1, _⟩ := stopChild_children s hn n imm
  exact allTI_of_map h _ h1 (fun x _ hx => ti_stopF n x hx)

theorem updChild_ti (s : St) (hcs : CS s) (h : AllTI s) (nt : Nat × Nat) : AllTI (updChild s nt) := by
  unfold updChild
  cases hf : findChild s nt.1 with
  | none =>
    intro c hc
    have := (insertChild_perm ⟨nt.1, nt.2, false, initState, false, none⟩ s.children).mem_iff.mp hc
    rcases List.mem_cons.mp this with rfl | hm
    · exact ⟨fun hh => by simp at hh, fun _ => rfl⟩
    · exact h c hm
  | some c =>
    simp only
    have h1 : AllTI (if c.typ ≠ nt.2 then modChild (stopChild s nt.1 true) nt.1 fun c => { c with typ := nt.2 } else s) := by
      split
      · have := stopChild_ti s hcs.cn h nt.1 true
        exact allTI_of_map this (fun c => if c.name = nt.1 then { c with typ := nt.2 } else c) rfl (by
          intro x _ hx; split
          · exact ⟨hx.1, hx.2⟩
          · exact hx)
      · exact h
    split
    · split <;> exact h1
    · exact h1

theorem update_good2 (s : St) (h : Good2 s) (prios : List Nat) (kids : List (Nat × Nat)) (hv : ValidCfg prios kids) :
    Good2 (update s prios kids) := by
  refine ⟨update_good s h.good prios kids hv, ?_⟩
  unfold update
  simp only
  have hcs : CS s := ⟨h.good.st.cn, h.good.st.idle⟩
  have hfold : ∀ (l : List (Nat × Nat)) (t : St), CS t → AllTI t → CS (l.foldl updChild t) ∧ AllTI (l.foldl updChild t) := by
    intro l
    induction l with
    | nil => intro t h1 h2; exact ⟨h1, h2⟩
    | cons nt rest ih =>
      intro t h1 h2
      simp only [List.foldl_cons]
      exact ih _ (updChild_cs t h1 nt).1 (updChild_ti t h1 h2 nt)
  obtain ⟨f1, f2⟩ := hfold kids s hcs h.ti
  have hstop : ∀ (l : List Nat) (t : St), CS t → AllTI t → CS (l.foldl (fun s n => stopChild s n true) t) ∧
      AllTI (l.foldl (fun s n => stopChild s n true) t) := by
    intro l
    induction l with
    | nil => intro t h1 h2; exact ⟨h1, h2⟩
    | cons n rest ih =>
      intro t h1 h2
      simp only [List.foldl_cons]
      exact ih _ (stopChild_cs t h1 n true).1 (stopChild_ti t h1.cn h2 n true)
  have hdrop : AllTI (dropChildren (kids.foldl updChild s) (kids.map (·.1))) := by
    unfold dropChildren
    simp only
    obtain ⟨_, g2⟩ := hstop ((List.filter (fun c => !(kids.map (·.1)).contains c.name) (kids.foldl updChild s).children).map (·.name))
      (kids.foldl updChild s) f1 f2
    intro c hc
    exact g2 c (List.mem_filter.mp hc).1
  obtain ⟨_, f2', _⟩ := foldl_updChild_cs kids s hcs
  obtain ⟨d1, d2, _⟩ := dropChildren_cs (kids.foldl updChild s) f1 (kids.map (·.1))
  have hst : Struct { dropChildren (kids.foldl updChild s) (kids.map (·.1)) with prios := prios } := by
    refine ⟨hv.1, d1.cn, ?_, d1.idle⟩
    intro n hn
    have hk := hv.2 n hn
    have : n ∈ names (dropChildren (kids.foldl updChild s) (kids.map (·.1))).children := by
      rw [d2]
      obtain ⟨nt, hnt, rfl⟩ := List.mem_map.mp hk
      exact ⟨f2' nt hnt, hk⟩
    cases hf : findChild { dropChildren (kids.foldl updChild s) (kids.map (·.1)) with prios := prios } n with
    | none => exact absurd this (findChild_none_iff.mp hf)
    | some _ => rfl
  by_cases hp : prios = []
  · simp only [hp, List.isEmpty_nil, if_true]
    exact hdrop
  · have hpe : prios.isEmpty = false := by cases prios with | nil => exact absurd rfl hp | cons _ _ => rfl
    simp only [hpe, Bool.false_eq_true, if_false]
    have hg : Good (sync { dropChildren (kids.foldl updChild s) (kids.map (·.1)) with prios := prios }
        ({ dropChildren (kids.foldl updChild s) (kids.map (·.1)) with prios := prios } : St).inUse) :=
      (sync_good _ hst _ (by intro c hin _ hne; exact absurd hin hne) hp).1
    have hti2 : AllTI ({ dropChildren (kids.foldl updChild s) (kids.map (·.1)) with prios := prios } : St) := hdrop
    exact (settle_good2 _ ⟨hg, sync_ti ({ dropChildren (kids.foldl updChild s) (kids.map (·.1)) with prios := prios } : St) d1.cn hti2 _⟩).ti

theorem timerFire_good2 (s : St) (h : Good2 s) (n : Nat) : Good2 (timerFire s n) := by
  refine ⟨timerFire_good s h.good n, ?_⟩
  unfold timerFire
  have hti : AllTI (modChild s n fun c => { c with timer := none }) :=
    allTI_of_map h.ti (fun c => if c.name = n then { c with timer := none } else c) rfl (by
      intro x _ hx; split
      · exact ⟨fun _ => rfl, hx.2⟩
      · exact hx)
  have hn : (names (modChild s n fun c => { c with timer := none }).children).Nodup := by
    show (names (s.children.map _)).Nodup
    rw [names_map]; exact h.good.st.cn
    intro x; split <;> rfl
  -- Good of the synced state comes from timerFire_good's argument; redo it through settle_good2
  have hst : Struct (modChild s n fun c => { c with timer := none }) := by
    apply struct_modChild s h.good.st n (fun c => { c with timer := none }) (fun c => rfl)
    intro x hx _ hst
    exact ⟨(h.good.st.idle x hx hst).1, rfl⟩
  by_cases hp : s.prios = []
  · have : sync (modChild s n fun c => { c with timer := none }) none = modChild s n fun c => { c with timer := none } := by
      unfold sync; show syncFrom _ _ (modChild s n _).prios = _
      have : (modChild s n fun c => { c with timer := none }).prios = [] := hp
      rw [this]; rfl
    rw [this]
    exact (settle_good2 _ ⟨⟨hst, fun hh => absurd hp hh, fun _ => h.good.none hp⟩, hti⟩).ti
  · have hup : PreUp (modChild s n fun c => { c with timer := none }) none := by
      intro c' hin hf' _
      rw [modChild_findChild s n (fun c => { c with timer := none }) (fun c => rfl)] at hf'
      cases hf0 : findChild s c'.name with
      | none => simp [hf0] at hf'
      | some c0 =>
        simp only [hf0, Option.map_some, Option.some.injEq] at hf'
        have hl := good_preUp_other h.good c0 (by
          obtain ⟨_, hc0n⟩ := findChild_some hf0
          rw [hc0n]; exact hin) (by
          obtain ⟨_, hc0n⟩ := findChild_some hf0
          rw [hc0n]; exact hf0) (by simp)
        rw [← hf']
        show s.lastUp = _
        rw [hl]; split <;> rfl
    exact (settle_good2 _ ⟨(sync_good _ hst none hup hp).1, sync_ti _ hn hti none⟩).ti

theorem good2_congr {s t : St} (h : Good2 s) (hc : t.children = s.children) (hp : t.prios = s.prios)
    (hu : t.inUse = s.inUse) (hl : t.lastUp = s.lastUp) : Good2 t :=
  ⟨good_congr h.good hc hp hu hl, by intro c hcm; rw [hc] at hcm; exact h.ti c hcm⟩

theorem step_good2 (s : St) (h : Good2 s) (op : Op) (hv : validOp op) : Good2 (step s op) := by
  have hclear : Good2 (clearOut s) := good2_congr h rfl rfl rfl rfl
  cases op with
  | update prios kids => exact update_good2 _ hclear prios kids hv
  | child n conn =>
    show Good2 ((childReport (clearOut s) n conn).getD (clearOut s))
    unfold childReport
    split
    · exact hclear
    · simp only [Option.getD_some]
      apply settle_good2
      apply handleChild_good2
      exact good2_congr hclear rfl rfl rfl rfl
  | timer n =>
    show Good2 (match findChild s n with
      | some c => if c.timer.isSome then timerFire (clearOut s) n else clearOut s
      | none => clearOut s)
    split
    · split
      · exact timerFire_good2 _ hclear n
      · exact hclear
    · exact hclear
  | expire n =>
    show Good2 (match findSb s n with
      | some b => if b.cachedUntil.isSome then cacheExpire (clearOut s) n else clearOut s
      | none => clearOut s)
    split
    · split
      · exact good2_congr hclear rfl rfl rfl rfl
      · exact hclear
    · exact hclear
  | advance d => exact good2_congr hclear rfl rfl rfl rfl
  | dispatch n =>
    show Good2 (dispatch (clearOut s) n)
    unfold dispatch
    repeat' split
    all_goals first | exact hclear | exact good2_congr hclear rfl rfl rfl rfl
  | runcb =>
    show Good2 (runCallback (clearOut s))
    rw [runCallback_eq]
    split
    · exact hclear
    · next n d rest _ =>
      have h1 : Good2 { clearOut s with pending := rest } := good2_congr hclear rfl rfl rfl rfl
      split
      · exact h1
      · split
        · exact timerFire_good2 _ h1 n
        · exact h1

theorem reach_good2 {s : St} (h : Reach s) : Good2 s := by
  induction h with
  | init => exact ⟨reach_good Reach.init, by intro c hc; simp [GrpcModel.Priority.init] at hc⟩
  | step op hv _ ih => exact step_good2 _ ih op hv

end GrpcProofs.Lemmas.Priority
