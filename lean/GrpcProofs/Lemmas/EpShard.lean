/-
Helper lemmas for C35 (endpointsharding part).
-/
import GrpcModel.Model.EpShard
import GrpcProofs.Lemmas.EpShardCount
namespace GrpcProofs.Lemmas.EpShard
open GrpcModel.EpShard GrpcModel.LbConnState GrpcProofs.Lemmas.EpShardCount

/-! ### A. `updateStateLocked` -/

theorem pickersIn_pos (cs : List Child) (s : ConnState) :
    (pickersIn cs s).length ≥ 1 ↔ s ∈ cs.map (·.state) := by
  simp only [pickersIn, List.length_map, List.mem_map]
  constructor
  · intro h
    have : 0 < (cs.filter (·.state = s)).length := h
    obtain ⟨c, hc⟩ := List.exists_mem_of_length_pos this
    rw [List.mem_filter] at hc
    exact ⟨c, hc.1, by simpa using hc.2⟩
  · rintro ⟨c, hc, rfl⟩
    exact List.length_pos_of_mem (List.mem_filter.mpr ⟨hc, by simp⟩)

theorem build_agg (cs : List Child) : (build cs).1 = prec (cs.map (·.state)) := by
  simp only [build, prec, pickersIn_pos]
  split
  · rfl
  · split
    · rfl
    · split
      · rfl
      · split <;> rfl

theorem filter_cstate (cs : List Child) (s : ConnState) :
    ((cs.map Child.cstate).filter (·.state = s)).map CState.del = pickersIn cs s := by
  induction cs with
  | nil => rfl
  | cons c t ih =>
    simp only [pickersIn] at ih ⊢
    simp only [List.map_cons, List.filter_cons, Child.cstate]
    by_cases h : c.state = s
    · simp only [h, decide_true, if_true, List.map_cons]
      rw [← ih]; rfl
    · simp only [h, decide_false]
      exact ih

theorem build_pickers (cs : List Child) :
    (build cs).2 = expectedPickers (cs.map Child.cstate) (build cs).1 := by
  have e : ∀ s, (pickersIn cs s).length ≥ 1 →
      expectedPickers (cs.map Child.cstate) s = pickersIn cs s := by
    intro s h
    simp only [expectedPickers, filter_cstate]
    have : (pickersIn cs s).isEmpty = false := by
      cases hp : pickersIn cs s with
      | nil => rw [hp] at h; simp at h
      | cons _ _ => rfl
    simp [this]
  have e0 : (pickersIn cs .tf).length = 0 → expectedPickers (cs.map Child.cstate) .tf = [.err] := by
    intro h
    simp only [expectedPickers, filter_cstate]
    have : pickersIn cs .tf = [] := List.eq_nil_of_length_eq_zero h
    simp [this]
  simp only [build]
  split
  · next h => exact (e _ h).symm
  · split
    · next h => exact (e _ h).symm
    · split
      · next h => exact (e _ h).symm
      · split
        · next h => exact (e _ h).symm
        · next h => exact (e0 (by omega)).symm

theorem build_pickers_ne (cs : List Child) : (build cs).2 ≠ [] := by
  simp only [build]
  split
  · next h => intro h0; replace h0 : pickersIn cs _ = [] := h0; rw [h0] at h; simp at h
  · split
    · next h => intro h0; replace h0 : pickersIn cs _ = [] := h0; rw [h0] at h; simp at h
    · split
      · next h => intro h0; replace h0 : pickersIn cs _ = [] := h0; rw [h0] at h; simp at h
      · split
        · next h => intro h0; replace h0 : pickersIn cs _ = [] := h0; rw [h0] at h; simp at h
        · simp

/-! ### B. the map-order oracle -/

theorem adopt_perm (o c : List Del) : (adopt o c).Perm c := by
  unfold adopt
  split
  · next h => exact List.isPerm_iff.mp h
  · exact List.Perm.refl _

theorem pickersOk_pushOf (cs : List Child) (r : Nat) (o : List Del) : pickersOk (pushOf cs r o) = true := by
  simp only [pickersOk, pushOf, Bool.and_eq_true, beq_iff_eq]
  refine ⟨?_, ?_⟩
  · rw [build_agg]; simp [List.map_map, Child.cstate, Function.comp_def]
  · rw [List.isPerm_iff, ← build_pickers]; exact adopt_perm _ _

theorem pushOf_len_pos (cs : List Child) (r : Nat) (o : List Del) : 0 < (pushOf cs r o).pickers.length := by
  simp only [pushOf]
  rw [(adopt_perm o (build cs).2).length_eq]
  exact List.length_pos_iff.mpr (build_pickers_ne cs)

theorem pushOk_pushOf (cs : List Child) (r : Nat) (o : List Del) : pushOk (pushOf cs r o) = true := by
  simp only [pushOk, Bool.and_eq_true, pickersOk_pushOf, true_and, decide_eq_true_eq]
  have hp := pushOf_len_pos cs r o
  simp only [pushOf] at hp ⊢
  simp only [BitVec.toNat_ofNat]
  exact Nat.lt_of_le_of_lt (Nat.mod_le _ _) (Nat.mod_lt _ hp)

/-! ### D. every push made by a step is `pushOf` of some child list -/

theorem step_push (s : St) (op : Op) (o : List Del) (p : Pushed)
    (h : (step s op o).2.push = some p) : ∃ cs r, p = pushOf cs r o := by
  cases op with
  | update r es => simp only [step, closeAll] at h; exact ⟨_, _, (Option.some.inj h).symm⟩
  | cs id st pk r =>
    simp only [step] at h
    split at h
    · simp at h
    · exact ⟨_, _, (Option.some.inj h).symm⟩
  | reserr r => simp only [step] at h; exact ⟨_, _, (Option.some.inj h).symm⟩
  | exitidle r => simp only [step] at h; exact ⟨_, _, (Option.some.inj h).symm⟩
  | close => simp [step, closeAll] at h
  | pick k => simp only [step, doPick] at h; split at h <;> simp at h
  | wrappick st k => simp only [step, doPick] at h; split at h <;> simp at h
  | pickold g k => simp only [step, doPickOld] at h; split at h <;> simp at h

/-! ### E. picks -/

theorem getD_lt (l : List Del) (i : Nat) (d : Del) (h : i < l.length) : l.getD i d = l[i] := by
  simp [List.getD, List.getElem?_eq_getElem h]

theorem pickSeq_length (ps : List Del) (next : BitVec 32) (k : Nat) : (pickSeq ps next k).2.length = k := by
  induction k generalizing next with
  | zero => rfl
  | succ k ih => simp only [pickSeq, List.length_cons, ih]

theorem pickSeq_mem (ps : List Del) (hne : 0 < ps.length) (next : BitVec 32) (k : Nat) (d : Del)
    (h : d ∈ (pickSeq ps next k).2) : d ∈ ps := by
  induction k generalizing next with
  | zero => simp [pickSeq] at h
  | succ k ih =>
    simp only [pickSeq, List.mem_cons] at h
    rcases h with h | h
    · have hi : (next + 1).toNat % ps.length < ps.length := Nat.mod_lt _ hne
      rw [h, getD_lt _ _ _ hi]
      exact List.getElem_mem hi
    · exact ih _ h

theorem mem_expected_ok (p : Pushed) (d : Del) (h : d ∈ expectedPickers p.childStates p.agg) :
    delegateOk p d = true := by
  simp only [expectedPickers] at h
  split at h
  · next he =>
    have hd : d = .err := by simpa using h
    subst hd
    simp only [delegateOk, Bool.not_eq_true', List.any_eq_false, decide_eq_true_eq]
    intro c hc hs
    have : c ∈ p.childStates.filter (·.state = p.agg) := List.mem_filter.mpr ⟨hc, by simpa using hs⟩
    have he' : (p.childStates.filter (·.state = p.agg)) = [] := by simpa using he
    rw [he'] at this; simp at this
  · obtain ⟨c, hc, rfl⟩ := List.mem_map.mp h
    rw [List.mem_filter] at hc
    have hs : c.state = p.agg := by simpa using hc.2
    simp only [CState.del]
    split
    · next hp =>
      simp only [delegateOk, List.any_eq_true, decide_eq_true_eq]
      exact ⟨c, hc.1, rfl, rfl, hs, hp⟩
    · next hp =>
      simp only [delegateOk, List.any_eq_true, decide_eq_true_eq, Bool.not_eq_true']
      exact ⟨c, hc.1, hs, by simpa using hp⟩

theorem pickersOk_perm (p : Pushed) (h : pickersOk p = true) :
    p.pickers.Perm (expectedPickers p.childStates p.agg) := by
  simp only [pickersOk, Bool.and_eq_true] at h
  exact List.isPerm_iff.mp h.2

theorem expected_ne (cs : List CState) (s : ConnState) : expectedPickers cs s ≠ [] := by
  simp only [expectedPickers]
  split
  · simp
  · next h => intro h0; rw [h0] at h; simp at h

theorem pickersOk_len_pos (p : Pushed) (h : pickersOk p = true) : 0 < p.pickers.length := by
  rw [(pickersOk_perm p h).length_eq]
  exact List.length_pos_iff.mpr (expected_ne _ _)

theorem picks_delegate_ok (p : Pushed) (h : pickersOk p = true) (next : BitVec 32) (k : Nat) (d : Del)
    (hd : d ∈ (pickSeq p.pickers next k).2) : delegateOk p d = true :=
  mem_expected_ok p d ((pickersOk_perm p h).mem_iff.mp (pickSeq_mem _ (pickersOk_len_pos p h) next k d hd))

/-! ### J. picks without index wrap are the residues of consecutive integers -/

theorem pickSeq_nowrap (ps : List Del) (k : Nat) (next : BitVec 32) (h : next.toNat + k < 4294967296) :
    (pickSeq ps next k).2 = (List.range k).map (fun j => ps.getD ((next.toNat + 1 + j) % ps.length) .err) := by
  induction k generalizing next with
  | zero => rfl
  | succ k ih =>
    have h1 : (next + 1).toNat = next.toNat + 1 := by
      rw [BitVec.toNat_add]
      show (next.toNat + 1) % 2 ^ 32 = _
      simp only [Nat.reducePow]
      exact Nat.mod_eq_of_lt (by omega)
    have := ih (next + 1) (by rw [h1]; omega)
    simp only [pickSeq, this, List.range_succ_eq_map, List.map_cons, List.map_map, h1, Nat.add_zero]
    congr 1
    apply List.map_congr_left
    intro j _
    simp only [Function.comp, Nat.succ_eq_add_one]
    congr 2
    omega

/-! ### H. each `.child` delegate occurs once -/

theorem count_child_le (l : List CState) (id ep : Nat) :
    (l.map CState.del).count (.child id ep) ≤ (l.map (·.ep)).count ep := by
  induction l with
  | nil => simp
  | cons c t ih =>
    simp only [List.map_cons, List.count_cons, beq_iff_eq]
    by_cases h : c.del = .child id ep
    · have : c.ep = ep := by
        simp only [CState.del] at h
        split at h
        · injection h with _ h2
        · cases h
      simp only [h, this, if_true]; omega
    · simp only [h, if_false]; split <;> omega

theorem child_count_one (p : Pushed) (h : pickersOk p = true) (hn : (p.childStates.map (·.ep)).Nodup)
    (id ep : Nat) (hm : Del.child id ep ∈ p.pickers) : p.pickers.count (.child id ep) = 1 := by
  have hperm := pickersOk_perm p h
  rw [hperm.count_eq]
  have hm' := hperm.mem_iff.mp hm
  have hpos : 0 < (expectedPickers p.childStates p.agg).count (.child id ep) := List.count_pos_iff.mpr hm'
  suffices (expectedPickers p.childStates p.agg).count (.child id ep) ≤ 1 by omega
  simp only [expectedPickers] at hm' ⊢
  split
  · simp
  · refine Nat.le_trans (count_child_le _ id ep) ?_
    have hsub : ((p.childStates.filter (·.state = p.agg)).map (·.ep)).Sublist (p.childStates.map (·.ep)) :=
      (List.filter_sublist).map _
    exact List.nodup_iff_count.mp (hn.sublist hsub) ep

theorem idx_unique (ps : List Del) (d : Del) (h : ps.count d = 1) (i j : Nat) (hi : i < ps.length)
    (hj : j < ps.length) (ei : ps[i] = d) (ej : ps[j] = d) : i = j := by
  induction ps generalizing i j with
  | nil => simp at hi
  | cons x t ih =>
    simp only [List.count_cons, beq_iff_eq] at h
    by_cases hx : x = d
    · simp only [hx, if_true] at h
      have h0 : t.count d = 0 := by omega
      have hnm : d ∉ t := List.count_eq_zero.mp h0
      cases i with
      | succ i' => exact absurd (by simpa using ei ▸ List.getElem_mem (by simpa using hi)) hnm
      | zero =>
        cases j with
        | succ j' => exact absurd (by simpa using ej ▸ List.getElem_mem (by simpa using hj)) hnm
        | zero => rfl
    · simp only [hx, if_false, Nat.add_zero] at h
      cases i with
      | zero => exact absurd (by simpa using ei) hx
      | succ i' =>
        cases j with
        | zero => exact absurd (by simpa using ej) hx
        | succ j' =>
          have := ih h i' j' (by simpa using hi) (by simpa using hj) (by simpa using ei) (by simpa using ej)
          omega

/-- k consecutive picks without index wrap: a delegate that occurs once in the picker list is
    chosen ⌊k/n⌋ or ⌈k/n⌉ times. -/
theorem fair_of_count_one (ps : List Del) (d : Del) (h1 : ps.count d = 1) (next : BitVec 32) (k : Nat)
    (hw : next.toNat + k < 4294967296) :
    fair ps.length k ((pickSeq ps next k).2.count d) = true := by
  have hm : d ∈ ps := List.count_pos_iff.mp (by omega)
  obtain ⟨i, hi, ei⟩ := List.mem_iff_getElem.mp hm
  have hn : 0 < ps.length := by omega
  have hc : (pickSeq ps next k).2.count d = window ps.length (next.toNat + 1) k i := by
    rw [pickSeq_nowrap ps k next hw, List.count_eq_countP, List.countP_map]
    unfold window
    apply List.countP_congr
    intro j _
    have hlt : (next.toNat + 1 + j) % ps.length < ps.length := Nat.mod_lt _ hn
    simp only [Function.comp, beq_iff_eq, decide_eq_true_eq, getD_lt _ _ _ hlt]
    constructor
    · intro e; exact idx_unique ps d h1 _ _ hlt hi e ei
    · intro e; subst e; exact ei
  rw [hc]
  rcases window_fair ps.length (next.toNat + 1) k i hi with e | ⟨e, ne⟩
  · simp [fair, e]
  · simp [fair, e, ne]

/-! ### G. invariant of every reachable state -/

structure Inv (s : St) : Prop where
  eps : (s.endpoints.map (·.ep)).Nodup
  last : ∀ p, s.last = some p → pickersOk p = true ∧ (p.childStates.map (·.ep)).Nodup
  cur : s.inhibit = false → ∀ p, s.last = some p →
      p.agg = prec (s.endpoints.map (·.state)) ∧ p.childStates = s.endpoints.map Child.cstate

theorem cstate_eps (cs : List Child) : (cs.map Child.cstate).map (·.ep) = cs.map (·.ep) := by
  simp [List.map_map, Child.cstate, Function.comp_def]

theorem updateOne_newEps (old : List Child) (da : Bool) (a : UAcc) (e : Entry) :
    (updateOne old da a e).newEps = a.newEps ∨
    (a.newEps.any (·.ep = e.ep) = false ∧ ∃ c : Child, c.ep = e.ep ∧ (updateOne old da a e).newEps = a.newEps ++ [c]) := by
  unfold updateOne
  split
  · left; rfl
  · next hany =>
    right
    refine ⟨by simpa using hany, ?_⟩
    cases hf : old.find? (·.ep = e.ep) with
    | none =>
      cases hr : e.report with
      | none => exact ⟨_, rfl, rfl⟩
      | some st => exact ⟨_, rfl, rfl⟩
    | some c =>
      have hc : c.ep = e.ep := by simpa using List.find?_some hf
      cases hr : e.report with
      | none => exact ⟨c, hc, rfl⟩
      | some st => exact ⟨{ c with state := st, hasPicker := true }, hc, rfl⟩

theorem updateOne_nodup (old : List Child) (da : Bool) (a : UAcc) (e : Entry)
    (h : (a.newEps.map (·.ep)).Nodup) : ((updateOne old da a e).newEps.map (·.ep)).Nodup := by
  rcases updateOne_newEps old da a e with h1 | ⟨hany, c, hc, h1⟩
  · rw [h1]; exact h
  · rw [h1, List.map_append, List.nodup_append]
    refine ⟨h, by simp, ?_⟩
    intro x hx y hy
    simp only [List.map_cons, List.map_nil, List.mem_singleton] at hy
    subst hy
    obtain ⟨c', hc', rfl⟩ := List.mem_map.mp hx
    intro heq
    have := List.any_eq_false.mp hany c' hc'
    simp [heq, hc] at this

theorem fold_nodup (old : List Child) (da : Bool) (es : List Entry) (a : UAcc)
    (h : (a.newEps.map (·.ep)).Nodup) : (((es.foldl (updateOne old da) a)).newEps.map (·.ep)).Nodup := by
  induction es generalizing a with
  | nil => exact h
  | cons e t ih => exact ih _ (updateOne_nodup old da a e h)

theorem setChild_eps (cs : List Child) (id : Nat) (st : ConnState) (pk : Bool) :
    (setChild cs id st pk).map (·.ep) = cs.map (·.ep) := by
  simp only [setChild, List.map_map]
  apply List.map_congr_left
  intro c _
  simp only [Function.comp]
  split <;> rfl

theorem closeAll_eps (cs : List Child) : (closeAll cs).1.map (·.ep) = cs.map (·.ep) := by
  simp [closeAll, List.map_map, Function.comp_def]

theorem inv_of_push (_s : St) (cs : List Child) (r : Nat) (o : List Del) (hn : (cs.map (·.ep)).Nodup) :
    pickersOk (pushOf cs r o) = true ∧ ((pushOf cs r o).childStates.map (·.ep)).Nodup ∧
    (pushOf cs r o).agg = prec (cs.map (·.state)) ∧ (pushOf cs r o).childStates = cs.map Child.cstate := by
  refine ⟨pickersOk_pushOf cs r o, ?_, ?_, rfl⟩
  · show ((cs.map Child.cstate).map (·.ep)).Nodup
    rw [cstate_eps]; exact hn
  · show (build cs).1 = _
    exact build_agg cs

theorem inv_init (b : Bool) : Inv (init b) :=
  ⟨by simp [init], by intro p h; simp [init] at h, by intro _ p h; simp [init] at h⟩

theorem inv_doPick (s : St) (h : Inv s) (start : Option Nat) (k : Nat) : Inv (doPick s start k).1 := by
  unfold doPick
  cases hl : s.last with
  | none => simpa [hl] using h
  | some p =>
    simp only
    refine ⟨h.eps, ?_, ?_⟩
    · intro q hq
      simp only [Option.some.injEq] at hq
      subst hq
      exact h.last p hl
    · intro hi q hq
      simp only [Option.some.injEq] at hq
      subst hq
      exact h.cur hi p hl

theorem inv_step (s : St) (h : Inv s) (op : Op) (o : List Del) : Inv (step s op o).1 := by
  cases op with
  | update r es =>
    simp only [step]
    have hn := fold_nodup s.endpoints s.disableAuto (rotate es r) { serial := s.serial } (by simp)
    obtain ⟨h1, h2, h3, h4⟩ := inv_of_push s _ r o hn
    refine ⟨hn, ?_, ?_⟩
    · intro p hp; simp only [Option.some.injEq] at hp; subst hp; exact ⟨h1, h2⟩
    · intro _ p hp; simp only [Option.some.injEq] at hp; subst hp; exact ⟨h3, h4⟩
  | cs id st pk r =>
    simp only [step]
    have hn : ((setChild s.endpoints id st pk).map (·.ep)).Nodup := by rw [setChild_eps]; exact h.eps
    split
    · next hi =>
      refine ⟨hn, h.last, ?_⟩
      intro hi'; simp [hi] at hi'
    · obtain ⟨h1, h2, h3, h4⟩ := inv_of_push s _ r o hn
      refine ⟨hn, ?_, ?_⟩
      · intro p hp; simp only [Option.some.injEq] at hp; subst hp; exact ⟨h1, h2⟩
      · intro _ p hp; simp only [Option.some.injEq] at hp; subst hp; exact ⟨h3, h4⟩
  | reserr r =>
    simp only [step]
    obtain ⟨h1, h2, h3, h4⟩ := inv_of_push s _ r o h.eps
    refine ⟨h.eps, ?_, ?_⟩
    · intro p hp; simp only [Option.some.injEq] at hp; subst hp; exact ⟨h1, h2⟩
    · intro _ p hp; simp only [Option.some.injEq] at hp; subst hp; exact ⟨h3, h4⟩
  | exitidle r =>
    simp only [step]
    obtain ⟨h1, h2, h3, h4⟩ := inv_of_push s _ r o h.eps
    refine ⟨h.eps, ?_, ?_⟩
    · intro p hp; simp only [Option.some.injEq] at hp; subst hp; exact ⟨h1, h2⟩
    · intro _ p hp; simp only [Option.some.injEq] at hp; subst hp; exact ⟨h3, h4⟩
  | close =>
    simp only [step]
    refine ⟨by rw [closeAll_eps]; exact h.eps, h.last, ?_⟩
    intro hi; simp at hi
  | pick k => exact inv_doPick s h none k
  | wrappick st k => exact inv_doPick s h (some st) k
  | pickold g k =>
    simp only [step, doPickOld]
    cases s.olds[g]? with
    | none => exact h
    | some pw => exact ⟨h.eps, h.last, h.cur⟩

/-- superseded pickers stay what they were when they were pushed -/
def OldsOk (s : St) : Prop := ∀ pw ∈ s.olds, pickersOk pw.1 = true ∧ (pw.1.childStates.map (·.ep)).Nodup

theorem oldsOk_retire (s : St) (h : Inv s) (ho : OldsOk s) : ∀ pw ∈ retire s, pickersOk pw.1 = true ∧ (pw.1.childStates.map (·.ep)).Nodup := by
  intro pw hm
  unfold retire at hm
  cases hl : s.last with
  | none => rw [hl] at hm; exact ho pw hm
  | some p =>
    rw [hl] at hm
    rcases List.mem_cons.mp hm with rfl | hm
    · exact h.last p hl
    · exact ho pw hm

theorem oldsOk_step (s : St) (h : Inv s) (ho : OldsOk s) (op : Op) (o : List Del) : OldsOk (step s op o).1 := by
  cases op with
  | update r es => simp only [step, closeAll]; exact oldsOk_retire s h ho
  | cs id st pk r =>
    simp only [step]
    split
    · exact ho
    · exact oldsOk_retire s h ho
  | reserr r => simp only [step]; exact oldsOk_retire s h ho
  | exitidle r => simp only [step]; exact oldsOk_retire s h ho
  | close => simp only [step, closeAll]; exact ho
  | pick k => simp only [step, doPick]; split <;> exact ho
  | wrappick st k => simp only [step, doPick]; split <;> exact ho
  | pickold g k =>
    simp only [step, doPickOld]
    cases hg : s.olds[g]? with
    | none => exact ho
    | some pw =>
      intro q hq
      rcases List.mem_or_eq_of_mem_set hq with hq | hq
      · exact ho q hq
      · subst hq
        exact ho pw (List.mem_of_getElem? hg)

theorem inv_olds_run (s : St) (h : Inv s) (ho : OldsOk s) (ops : List (Op × List Del)) :
    Inv (run s ops) ∧ OldsOk (run s ops) := by
  induction ops generalizing s with
  | nil => exact ⟨h, ho⟩
  | cons x t ih => obtain ⟨op, o⟩ := x; exact ih _ (inv_step s h op o) (oldsOk_step s h ho op o)

theorem inv_run (s : St) (h : Inv s) (ops : List (Op × List Del)) : Inv (run s ops) := by
  induction ops generalizing s with
  | nil => exact h
  | cons x t ih => obtain ⟨op, o⟩ := x; exact ih _ (inv_step s h op o)

/-- the whole window of picks is fair for every `.child` delegate -/
theorem windowFair_of_inv (p : Pushed) (h : pickersOk p = true) (hn : (p.childStates.map (·.ep)).Nodup)
    (next : BitVec 32) (k : Nat) (hw : next.toNat + k < 4294967296) :
    windowFair p (pickSeq p.pickers next k).2 = true := by
  simp only [windowFair, List.all_eq_true]
  intro d hd
  cases d with
  | child id ep =>
    simp only [pickSeq_length]
    exact fair_of_count_one p.pickers _ (child_count_one p h hn id ep hd) next k hw
  | nilp => rfl
  | err => rfl

end GrpcProofs.Lemmas.EpShard
