import GrpcModel.Model.Unbounded
/-! Helper lemmas for C31 (unbounded queue): state invariant, one-step FIFO refinement, the
coupling invariant between the model state and the output-only monitor. -/
namespace GrpcProofs.Lemmas.Unbounded
open GrpcModel.Unbounded

variable {α : Type}

/-- `closed` mirrors the channel's closed flag; once closed, `closing` holds and the backlog is empty. -/
def Inv (s : St α) : Prop :=
  s.closed = s.chanClosed ∧ (s.closed = true → s.closing = true ∧ s.backlog = [])

theorem inv_init : Inv (init : St α) := by simp [Inv, init]

theorem step_inv (s : St α) (o : Op α) (h : Inv s) : Inv (step s o).1 := by
  obtain ⟨h1, h2⟩ := h
  cases o <;> simp only [step] <;> repeat' split
  all_goals simp_all [Inv]

theorem step_no_panic (s : St α) (o : Op α) (h : Inv s) : (step s o).2 ≠ .panic := by
  obtain ⟨h1, h2⟩ := h
  cases o <;> simp only [step] <;> repeat' split
  all_goals simp_all

/-- One step of the FIFO refinement: what was received in this step followed by the new
    contents = the old contents followed by what was accepted in this step. -/
theorem step_fifo (s : St α) (o : Op α) :
    received [(o, (step s o).2)] ++ abs (step s o).1 = abs s ++ accepted [(o, (step s o).2)] := by
  cases o <;> simp only [step] <;> repeat' split
  all_goals simp_all [received, accepted, abs]

theorem accepted_cons (x : Op α × Out α) (t : List (Op α × Out α)) :
    accepted (x :: t) = accepted [x] ++ accepted t := by
  obtain ⟨o, out⟩ := x
  cases o <;> cases out <;> simp [accepted]

theorem received_cons (x : Op α × Out α) (t : List (Op α × Out α)) :
    received (x :: t) = received [x] ++ received t := by
  obtain ⟨o, out⟩ := x
  cases out <;> simp [received]

theorem fifo (ops : List (Op α)) (s : St α) :
    received (run s ops).2 ++ abs (run s ops).1 = abs s ++ accepted (run s ops).2 := by
  induction ops generalizing s with
  | nil => simp [run, received, accepted]
  | cons o os ih =>
    simp only [run]
    have h1 := step_fifo s o
    have h2 := ih (step s o).1
    rw [received_cons, accepted_cons]
    simp only [List.append_assoc]
    rw [h2, ← List.append_assoc, h1]
    simp [List.append_assoc]

theorem run_inv (ops : List (Op α)) (s : St α) (h : Inv s) : Inv (run s ops).1 := by
  induction ops generalizing s with
  | nil => simpa [run]
  | cons o os ih => simpa [run] using ih _ (step_inv s o h)

/-- Model state ↔ monitor state. The last clause is the consumer-protocol invariant: while the
    consumer has called Load after every successful read, an empty channel slot means that nothing
    is buffered and that a requested close has been carried out. -/
def Coupled (s : St α) (m : Mon α) : Prop :=
  Inv s ∧ abs s = m.acc ∧ m.closeSeen = s.closing ∧
  (m.proto = true → m.needLoad = false → s.chan = none → s.backlog = [] ∧ (s.closing = true → s.closed = true))

theorem coupled_init : Coupled (init : St α) Mon.init := by
  simp [Coupled, Inv, init, Mon.init, abs]

theorem step_coupled [DecidableEq α] (s : St α) (m : Mon α) (o : Op α) (h : Coupled s m) :
    Coupled (step s o).1 (Mon.step m o (step s o).2).1 ∧ ∀ c, (Mon.step m o (step s o).2).2 ≠ .viol c := by
  obtain ⟨⟨h1, h2⟩, h3, h4, h5⟩ := h
  obtain ⟨chan, chanClosed, backlog, closing, closed⟩ := s
  obtain ⟨acc, closeSeen, needLoad, proto⟩ := m
  simp only at h1 h2 h3 h4 h5
  cases o
  case put v =>
    subst h3
    simp only [step]
    repeat' split
    all_goals simp_all [Coupled, Inv, abs, Mon.step]
  case load =>
    simp only [step]
    repeat' split
    all_goals simp_all [Coupled, Inv, abs, Mon.step]
  case close =>
    simp only [step]
    repeat' split
    all_goals simp_all [Coupled, Inv, abs, Mon.step]
  case recv =>
    cases chan with
    | some v =>
      cases acc with
      | nil => simp_all [abs]
      | cons x rest =>
        simp_all [Coupled, Inv, abs, Mon.step, step]
    | none =>
      cases chanClosed <;> cases proto <;> cases needLoad <;> cases closing <;>
        simp_all [Coupled, Inv, abs, Mon.step, step]

theorem verdicts_ok [DecidableEq α] (ops : List (Op α)) (s : St α) (m : Mon α) (h : Coupled s m) :
    ∀ v ∈ verdicts s m ops, ∀ c, v ≠ .viol c := by
  induction ops generalizing s m with
  | nil => simp [verdicts]
  | cons o os ih =>
    have hs := step_coupled s m o h
    intro v hv
    simp only [verdicts, List.mem_cons] at hv
    rcases hv with rfl | hv
    · exact hs.2
    · exact ih _ _ hs.1 v hv

end GrpcProofs.Lemmas.Unbounded
