/-
Helper lemmas for C39 (priority policy): stop/start/switchToChild as pointwise maps on the
children, the specification of syncPriority (`syncFrom_spec`), and preservation of the invariant
`Good` by child state updates, init timers, config updates and time.
-/
import GrpcModel.Model.Priority
namespace GrpcProofs.Lemmas.Priority
open GrpcModel.Priority

abbrev names (cs : List Child) : List Nat := cs.map (·.name)

theorem findChild_some {s : St} {n : Nat} {c : Child} (h : findChild s n = some c) : c ∈ s.children ∧ c.name = n := by
  unfold findChild at h
  exact ⟨List.mem_of_find?_eq_some h, by simpa using List.find?_some h⟩

theorem eq_of_nodup_names {cs : List Child} (h : (names cs).Nodup) {a b : Child} (ha : a ∈ cs) (hb : b ∈ cs)
    (hn : a.name = b.name) : a = b := by
  induction cs with
  | nil => cases ha
  | cons x xs ih =>
    simp only [names, List.map_cons, List.nodup_cons] at h
    rcases List.mem_cons.mp ha with rfl | ha' <;> rcases List.mem_cons.mp hb with rfl | hb'
    · rfl
    · exact absurd (by rw [hn]; exact List.mem_map_of_mem hb') h.1
    · exact absurd (by rw [← hn]; exact List.mem_map_of_mem ha') h.1
    · exact ih h.2 ha' hb'

theorem findChild_of_mem {s : St} (h : (names s.children).Nodup) {c : Child} (hc : c ∈ s.children) :
    findChild s c.name = some c := by
  unfold findChild
  cases hf : s.children.find? (·.name = c.name) with
  | none =>
    have := List.find?_eq_none.mp hf c hc
    simp at this
  | some c' =>
    have h1 := List.mem_of_find?_eq_some hf
    have h2 : c'.name = c.name := by simpa using List.find?_some hf
    rw [eq_of_nodup_names h h1 hc h2]

theorem findChild_none_iff {s : St} {n : Nat} : findChild s n = none ↔ n ∉ names s.children := by
  unfold findChild
  rw [List.find?_eq_none]
  simp only [names, List.mem_map, not_exists, not_and]
  constructor
  · intro h c hc hn; have := h c hc; simp [hn] at this
  · intro h c hc; simp; intro hn; exact h c hc hn

/-- children are changed pointwise by a name-preserving function -/
def mapChildren (s : St) (f : Child → Child) : St := { s with children := s.children.map f }

theorem findChild_map {s t : St} {f : Child → Child} (hf : ∀ c, (f c).name = c.name) (ht : t.children = s.children.map f) (n : Nat) :
    findChild t n = (findChild s n).map f := by
  unfold findChild
  rw [ht, List.find?_map]
  have : ((fun c : Child => decide (c.name = n)) ∘ f) = (fun c => decide (c.name = n)) := by
    funext c; simp [Function.comp, hf c]
  rw [this]

theorem names_map {cs : List Child} {f : Child → Child} (hf : ∀ c, (f c).name = c.name) : names (cs.map f) = names cs := by
  simp only [names, List.map_map]
  apply List.map_congr_left; intro c _; exact hf c

/-! ### stop / start as pointwise maps -/

def resetChild (c : Child) : Child := { c with started := false, st := initState, reportedTF := false, timer := none }

def stopF (n : Nat) (c : Child) : Child := if c.name = n ∧ c.started = true then resetChild c else c

theorem stopF_name (n : Nat) (c : Child) : (stopF n c).name = c.name := by
  unfold stopF; split <;> rfl

theorem stopChild_children (s : St) (hn : (names s.children).Nodup) (n : Nat) (imm : Bool) :
    (stopChild s n imm).children = s.children.map (stopF n) ∧ (stopChild s n imm).prios = s.prios ∧
    (stopChild s n imm).inUse = s.inUse ∧ (stopChild s n imm).lastUp = s.lastUp ∧ (stopChild s n imm).now = s.now := by
  unfold stopChild
  cases hf : findChild s n with
  | none =>
    refine ⟨?_, rfl, rfl, rfl, rfl⟩
    have hnot := findChild_none_iff.mp hf
    symm
    calc s.children.map (stopF n) = s.children.map id := by
          apply List.map_congr_left; intro c hc
          have : c.name ≠ n := fun h => hnot (by rw [← h]; exact List.mem_map_of_mem hc)
          simp [stopF, this]
      _ = s.children := List.map_id _
  | some c =>
    obtain ⟨hc, hcn⟩ := findChild_some hf
    by_cases hs : c.started = true
    · simp only [hs, Bool.not_true, Bool.false_eq_true, if_false]
      have hm : (modChild s n fun c => { c with started := false, st := initState, reportedTF := false, timer := none }).children
          = s.children.map (stopF n) := by
        unfold modChild
        apply List.map_congr_left; intro x hx
        by_cases hxn : x.name = n
        · have : x = c := eq_of_nodup_names hn hx hc (hxn.trans hcn.symm)
          subst this
          simp [stopF, hxn, hs, resetChild]
        · simp [stopF, hxn]
      split <;> refine ⟨hm, ?_, ?_, ?_, ?_⟩ <;> first | rfl | trivial
    · have hs' : c.started = false := by simpa using hs
      simp only [hs', Bool.not_false, if_true]
      refine ⟨?_, ?_, ?_, ?_, ?_⟩ <;> try trivial
      symm
      calc s.children.map (stopF n) = s.children.map id := by
            apply List.map_congr_left; intro x hx
            by_cases hxn : x.name = n
            · have : x = c := eq_of_nodup_names hn hx hc (hxn.trans hcn.symm)
              subst this
              simp [stopF, hs']
            · simp [stopF, hxn]
        _ = s.children := List.map_id _

def startF (now : Int) (n : Nat) (c : Child) : Child :=
  if c.name = n ∧ c.started = false then { c with started := true, timer := some (c.timer.getD (now + initTimeout)) } else c

theorem startF_name (now : Int) (n : Nat) (c : Child) : (startF now n c).name = c.name := by
  unfold startF; split <;> rfl

theorem startChild_children (s : St) (hn : (names s.children).Nodup) (n : Nat) :
    (startChild s n).children = s.children.map (startF s.now n) ∧ (startChild s n).prios = s.prios ∧
    (startChild s n).inUse = s.inUse ∧ (startChild s n).lastUp = s.lastUp ∧ (startChild s n).now = s.now := by
  unfold startChild
  cases hf : findChild s n with
  | none =>
    refine ⟨?_, rfl, rfl, rfl, rfl⟩
    have hnot := findChild_none_iff.mp hf
    symm
    calc s.children.map (startF s.now n) = s.children.map id := by
          apply List.map_congr_left; intro c hc
          have : c.name ≠ n := fun h => hnot (by rw [← h]; exact List.mem_map_of_mem hc)
          simp [startF, this]
      _ = s.children := List.map_id _
  | some c =>
    obtain ⟨hc, hcn⟩ := findChild_some hf
    by_cases hs : c.started = true
    · simp only [hs, if_true]
      refine ⟨?_, ?_, ?_, ?_, ?_⟩ <;> try trivial
      symm
      calc s.children.map (startF s.now n) = s.children.map id := by
            apply List.map_congr_left; intro x hx
            by_cases hxn : x.name = n
            · have : x = c := eq_of_nodup_names hn hx hc (hxn.trans hcn.symm)
              subst this
              simp [startF, hs]
            · simp [startF, hxn]
        _ = s.children := List.map_id _
    · have hs' : c.started = false := by simpa using hs
      simp only [hs', Bool.false_eq_true, if_false]
      have hm : (modChild s n fun c => { c with started := true, timer := some (c.timer.getD (s.now + initTimeout)) }).children
          = s.children.map (startF s.now n) := by
        unfold modChild
        apply List.map_congr_left; intro x hx
        by_cases hxn : x.name = n
        · have : x = c := eq_of_nodup_names hn hx hc (hxn.trans hcn.symm)
          subst this
          simp [startF, hxn, hs']
        · simp [startF, hxn]
      repeat' split
      all_goals (refine ⟨hm, ?_, ?_, ?_, ?_⟩ <;> first | rfl | trivial)

def stopAllF (lower : List Nat) (c : Child) : Child := if c.name ∈ lower ∧ c.started = true then resetChild c else c

theorem stopAllF_name (lower : List Nat) (c : Child) : (stopAllF lower c).name = c.name := by
  unfold stopAllF; split <;> rfl

theorem stopLower_children (s : St) (hn : (names s.children).Nodup) (lower : List Nat) :
    (stopLower s lower).children = s.children.map (stopAllF lower) ∧ (stopLower s lower).prios = s.prios ∧
    (stopLower s lower).inUse = s.inUse ∧ (stopLower s lower).lastUp = s.lastUp ∧ (stopLower s lower).now = s.now := by
  unfold stopLower
  induction lower generalizing s with
  | nil =>
    refine ⟨?_, rfl, rfl, rfl, rfl⟩
    symm
    calc s.children.map (stopAllF []) = s.children.map id := by
          apply List.map_congr_left; intro c _; simp [stopAllF]
      _ = s.children := List.map_id _
  | cons n rest ih =>
    simp only [List.foldl_cons]
    obtain ⟨h1, h2, h3, h4, h5⟩ := stopChild_children s hn n false
    have hn' : (names (stopChild s n false).children).Nodup := by rw [h1, names_map (stopF_name n)]; exact hn
    obtain ⟨i1, i2, i3, i4, i5⟩ := ih (stopChild s n false) hn'
    refine ⟨?_, i2.trans h2, i3.trans h3, i4.trans h4, i5.trans h5⟩
    rw [i1, h1, List.map_map]
    apply List.map_congr_left; intro c _
    simp only [Function.comp, stopAllF, stopF]
    by_cases h1 : c.name = n
    · by_cases h2 : c.started = true
      · simp [h1, h2, resetChild]
      · simp [h1, h2]
    · by_cases h2 : c.name ∈ rest <;> simp [h1, h2]

/-! ### structure of a state -/

structure Struct (s : St) : Prop where
  pn : s.prios.Nodup
  cn : (names s.children).Nodup
  has : ∀ n ∈ s.prios, (findChild s n).isSome
  idle : ∀ c ∈ s.children, c.started = false → c.st = initState ∧ c.timer = none

/-- the selection made by syncPriority: everything above the child in use is started and not
    usable, the child in use is started and usable or the last, everything below is stopped, and
    the parent has been sent the state of the child in use -/
structure Sel (s : St) : Prop where
  ex : ∃ above u below c, s.prios = above ++ u :: below ∧ s.inUse = some u ∧ findChild s u = some c ∧
    c.started = true ∧ (usable c = true ∨ below = []) ∧
    (∀ a ∈ above, ∃ ca, findChild s a = some ca ∧ ca.started = true ∧ usable ca = false) ∧
    (∀ b ∈ below, ∃ cb, findChild s b = some cb ∧ cb.started = false) ∧
    s.lastUp = some c.st

/-- what `switchToChild` does to the children: lower priorities are stopped, the chosen child is
    started if it was not -/
def switchF (now : Int) (c : Child) (rest : List Nat) (x : Child) : Child :=
  if c.started then stopAllF rest x else startF now c.name (stopAllF rest x)

theorem switchF_name (now : Int) (c : Child) (rest : List Nat) (x : Child) : (switchF now c rest x).name = x.name := by
  unfold switchF; split
  · exact stopAllF_name rest x
  · rw [startF_name, stopAllF_name]

theorem switchTo_spec (s : St) (hn : (names s.children).Nodup) (c : Child) (rest : List Nat) :
    (switchTo s c rest).children = s.children.map (switchF s.now c rest) ∧ (switchTo s c rest).prios = s.prios ∧
    (switchTo s c rest).inUse = some c.name ∧ (switchTo s c rest).lastUp = s.lastUp ∧ (switchTo s c rest).now = s.now := by
  unfold switchTo
  obtain ⟨h1, h2, h3, h4, h5⟩ := stopLower_children s hn rest
  have hn' : (names (stopLower s rest).children).Nodup := by rw [h1, names_map (stopAllF_name rest)]; exact hn
  simp only
  by_cases hcs : c.started = true
  · have hsw : ∀ x, switchF s.now c rest x = stopAllF rest x := by intro x; simp [switchF, hcs]
    have hmap : s.children.map (switchF s.now c rest) = s.children.map (stopAllF rest) := by
      apply List.map_congr_left; intro x _; exact hsw x
    by_cases hu : (stopLower s rest).inUse = some c.name
    · simp only [hu, hcs, and_self, if_true]
      exact ⟨by rw [h1, hmap], h2, trivial, h4, h5⟩
    · simp only [hu, false_and, if_false, hcs, Bool.not_true, Bool.false_eq_true]
      exact ⟨by rw [h1, hmap], h2, trivial, h4, h5⟩
  · have hcs' : c.started = false := by simpa using hcs
    simp only [hcs', Bool.false_eq_true, and_false, if_false, Bool.not_false, if_true]
    obtain ⟨k1, k2, k3, k4, k5⟩ := startChild_children { stopLower s rest with inUse := some c.name } hn' c.name
    refine ⟨?_, k2.trans h2, k3, k4.trans h4, k5.trans h5⟩
    rw [k1]
    show List.map _ (stopLower s rest).children = _
    rw [h1, List.map_map]
    apply List.map_congr_left; intro x _
    show startF (stopLower s rest).now c.name (stopAllF rest x) = switchF s.now c rest x
    rw [h5]; simp [switchF, hcs']

def PreUp (s : St) (upd : Option Nat) : Prop :=
  ∀ c, s.inUse = some c.name → findChild s c.name = some c → upd ≠ some c.name → s.lastUp = some c.st

theorem struct_of_map {s t : St} (h : Struct s) (g : Child → Child) (hg : ∀ x, (g x).name = x.name)
    (hc : t.children = s.children.map g) (hp : t.prios = s.prios)
    (hidle : ∀ x ∈ s.children, (g x).started = false → (g x).st = initState ∧ (g x).timer = none) : Struct t := by
  constructor
  · rw [hp]; exact h.pn
  · rw [hc, names_map hg]; exact h.cn
  · intro n hn
    rw [hp] at hn
    rw [findChild_map hg hc]
    have := h.has n hn
    cases hf : findChild s n with
    | none => simp [hf] at this
    | some c => simp
  · intro c hc' hs
    rw [hc] at hc'
    obtain ⟨x, hx, rfl⟩ := List.mem_map.mp hc'
    exact hidle x hx hs

theorem switchF_idle (now : Int) (c : Child) (rest : List Nat) (x : Child)
    (hx : x.started = false → x.st = initState ∧ x.timer = none)
    (h : (switchF now c rest x).started = false) :
    (switchF now c rest x).st = initState ∧ (switchF now c rest x).timer = none := by
  have hstop : (stopAllF rest x).started = false → (stopAllF rest x).st = initState ∧ (stopAllF rest x).timer = none := by
    unfold stopAllF
    split
    · intro _; exact ⟨rfl, rfl⟩
    · exact hx
  unfold switchF at h ⊢
  by_cases hc : c.started = true
  · simp only [hc, if_true] at h ⊢
    exact hstop h
  · simp only [hc, Bool.false_eq_true, if_false] at h ⊢
    unfold startF at h ⊢
    by_cases h2 : (stopAllF rest x).name = c.name ∧ (stopAllF rest x).started = false
    · simp [h2] at h
    · simp only [h2, if_false] at h ⊢
      exact hstop h

theorem syncFrom_spec (s : St) (hs : Struct s) (upd : Option Nat) (hup : PreUp s upd) (pre rest : List Nat)
    (hsplit : s.prios = pre ++ rest) (hrest : rest ≠ [])
    (hpre : ∀ a ∈ pre, ∃ ca, findChild s a = some ca ∧ ca.started = true ∧ usable ca = false) :
    Struct (syncFrom s upd rest) ∧ Sel (syncFrom s upd rest) ∧ (syncFrom s upd rest).prios = s.prios ∧
    (syncFrom s upd rest).now = s.now := by
  induction rest generalizing pre with
  | nil => exact absurd rfl hrest
  | cons n rest' ih =>
    have hnmem : n ∈ s.prios := by rw [hsplit]; simp
    have hsome := hs.has n hnmem
    cases hf : findChild s n with
    | none => simp [hf] at hsome
    | some c =>
      obtain ⟨hcmem, hcn⟩ := findChild_some hf
      simp only [syncFrom, hf]
      by_cases hp : pick c rest'.isEmpty = true
      · simp only [hp, if_true]
        -- the state handed to switchTo
        obtain ⟨s1, hs1, hc1, hp1, hu1, hn1, hl1⟩ : ∃ s1 : St,
            s1 = (if s.inUse ≠ some n ∨ upd = some n then sendUp s c.st else s) ∧ s1.children = s.children ∧ s1.prios = s.prios ∧
            s1.inUse = s.inUse ∧ s1.now = s.now ∧ (s1.inUse = some n → s1.lastUp = some c.st) := by
          refine ⟨_, rfl, ?_, ?_, ?_, ?_, ?_⟩
          · split <;> rfl
          · split <;> rfl
          · split <;> rfl
          · split <;> rfl
          · intro hin
            split
            · rfl
            · next hcond =>
              have hin' : s.inUse = some n := by
                split at hin
                · exact hin
                · exact hin
              have hnu : upd ≠ some n := fun h => hcond (Or.inr h)
              exact hup c (by rw [hcn]; exact hin') (by rw [hcn]; exact hf) (by rw [hcn]; exact hnu)
        rw [← hs1]
        have hn1' : (names s1.children).Nodup := by rw [hc1]; exact hs.cn
        obtain ⟨w1, w2, w3, w4, w5⟩ := switchTo_spec s1 hn1' c rest'
        rw [hn1, hc1] at w1
        have hfm : ∀ m, findChild (switchTo s1 c rest') m = (findChild s m).map (switchF s.now c rest') :=
          fun m => findChild_map (switchF_name s.now c rest') w1 m
        -- names of pre / n / rest' are pairwise distinct
        have hnd := hs.pn
        rw [hsplit] at hnd
        have hn_notin_rest : n ∉ rest' := by
          have := (List.nodup_append.mp hnd).2.1
          exact (List.nodup_cons.mp this).1
        have hpre_notin : ∀ a ∈ pre, a ∉ rest' ∧ a ≠ n := by
          intro a ha
          have hdis := (List.nodup_append.mp hnd).2.2
          exact ⟨fun h => hdis a ha a (by simp [h]) rfl, fun h => hdis a ha n (by simp) h⟩
        refine ⟨?_, ⟨?_⟩, w2.trans hp1, w5.trans hn1⟩
        · apply struct_of_map hs _ (switchF_name s.now c rest') w1 (w2.trans hp1)
          intro x hx hst
          exact switchF_idle s.now c rest' x (hs.idle x hx) hst
        · refine ⟨pre, n, rest', switchF s.now c rest' c, ?_, ?_, ?_, ?_, ?_, ?_, ?_, ?_⟩
          · rw [w2, hp1]; exact hsplit
          · rw [w3, hcn]
          · rw [hfm, hf]; rfl
          · -- started
            unfold switchF
            by_cases hcs : c.started = true
            · simp [hcs, stopAllF, hcn, hn_notin_rest]
            · simp [hcs, stopAllF, hcn, hn_notin_rest, startF]
          · -- usable or last
            by_cases hcs : c.started = true
            · have : switchF s.now c rest' c = c := by simp [switchF, hcs, stopAllF, hcn, hn_notin_rest]
              rw [this]
              unfold pick at hp
              simp only [hcs, Bool.not_true, Bool.false_or, Bool.or_eq_true] at hp
              rcases hp with h | h
              · exact Or.inl h
              · exact Or.inr (by simpa using h)
            · have hcs' : c.started = false := by simpa using hcs
              left
              have hidle := hs.idle c hcmem hcs'
              simp [switchF, hcs', stopAllF, hcn, hn_notin_rest, startF, usable, hidle.1, initState]
          · intro a ha
            obtain ⟨ca, hfa, hsa, hua⟩ := hpre a ha
            obtain ⟨_, hcan⟩ := findChild_some hfa
            obtain ⟨h1, h2⟩ := hpre_notin a ha
            have : switchF s.now c rest' ca = ca := by
              unfold switchF stopAllF startF
              have hne : ca.name ≠ c.name := by rw [hcan, hcn]; exact h2
              have hni : ca.name ∉ rest' := by rw [hcan]; exact h1
              simp [hni, hne]
            exact ⟨ca, by rw [hfm, hfa]; simp [this], hsa, hua⟩
          · intro b hb
            have hbm : b ∈ s.prios := by rw [hsplit]; simp [hb]
            have hbs := hs.has b hbm
            cases hfb : findChild s b with
            | none => simp [hfb] at hbs
            | some cb =>
              obtain ⟨_, hcbn⟩ := findChild_some hfb
              refine ⟨switchF s.now c rest' cb, by rw [hfm, hfb]; rfl, ?_⟩
              have hne : cb.name ≠ c.name := by
                rw [hcbn, hcn]; intro h; exact hn_notin_rest (h ▸ hb)
              have hin : cb.name ∈ rest' := by rw [hcbn]; exact hb
              unfold switchF stopAllF startF
              by_cases h1 : cb.started = true <;> by_cases h2 : c.started = true <;> simp [hin, hne, h1, h2, resetChild]
          · -- lastUp
            rw [w4]
            have hst : (switchF s.now c rest' c).st = c.st := by
              unfold switchF stopAllF startF
              by_cases h2 : c.started = true <;> simp [hcn, hn_notin_rest, h2]
            rw [hst]
            by_cases hin : s1.inUse = some n
            · exact hl1 hin
            · -- then sendUp happened
              have : s.inUse ≠ some n := by rw [← hu1]; exact hin
              rw [hs1]; simp [this, sendUp]
      · -- not picked: go on
        have hp' : pick c rest'.isEmpty = false := by simpa using hp
        simp only [hp', Bool.false_eq_true, if_false]
        unfold pick at hp'
        simp only [Bool.or_eq_false_iff, Bool.not_eq_false'] at hp'
        have hr' : rest' ≠ [] := by
          intro h; rw [h] at hp'; simp at hp'
        apply ih (pre ++ [n]) (by rw [hsplit]; simp) hr'
        intro a ha
        rcases List.mem_append.mp ha with ha | ha
        · exact hpre a ha
        · simp at ha; subst ha
          exact ⟨c, hf, by simpa using hp'.1.1, hp'.1.2⟩

/-! ### the invariant and its preservation -/

structure Good (s : St) : Prop where
  st : Struct s
  sel : s.prios ≠ [] → Sel s
  none : s.prios = [] → s.inUse = none ∧ (s.lastUp = none ∨ s.lastUp = some ⟨3, .allrm⟩)

theorem sync_good (s : St) (hs : Struct s) (upd : Option Nat) (hup : PreUp s upd) (hne : s.prios ≠ []) :
    Good (sync s upd) ∧ (sync s upd).prios = s.prios ∧ (sync s upd).now = s.now := by
  unfold sync
  obtain ⟨h1, h2, h3, h4⟩ := syncFrom_spec s hs upd hup [] s.prios (by simp) hne (by simp)
  exact ⟨⟨h1, fun _ => h2, fun h => absurd (h3 ▸ h) hne⟩, h3, h4⟩

theorem good_preUp_other {s : St} (h : Good s) : PreUp s none := by
  intro c hin hf _
  by_cases hp : s.prios = []
  · rw [(h.none hp).1] at hin; cases hin
  · obtain ⟨above, u, below, cu, _, hu, hfu, _, _, _, _, hl⟩ := (h.sel hp).ex
    rw [hu] at hin
    have : u = c.name := by injection hin
    subst this
    rw [hfu] at hf; injection hf with hf; subst hf
    exact hl

theorem applyState_name (now : Int) (c : Child) (p : PState) : (applyState now c p).name = c.name := by
  unfold applyState; simp only; repeat' split
  all_goals rfl

theorem applyState_started (now : Int) (c : Child) (p : PState) : (applyState now c p).started = c.started := by
  unfold applyState; simp only; repeat' split
  all_goals rfl

theorem modChild_findChild (s : St) (n : Nat) (f : Child → Child) (hf : ∀ c, (f c).name = c.name) (m : Nat) :
    findChild (modChild s n f) m = (findChild s m).map (fun c => if c.name = n then f c else c) := by
  apply findChild_map (f := fun c => if c.name = n then f c else c)
  · intro c; split
    · exact hf c
    · rfl
  · rfl

theorem struct_modChild (s : St) (hs : Struct s) (n : Nat) (f : Child → Child) (hf : ∀ c, (f c).name = c.name)
    (hidle : ∀ x ∈ s.children, x.name = n → (f x).started = false → (f x).st = initState ∧ (f x).timer = none) :
    Struct (modChild s n f) := by
  refine struct_of_map (t := modChild s n f) hs (fun c => if c.name = n then f c else c) ?_ rfl rfl ?_
  · intro x; split
    · exact hf x
    · rfl
  · intro x hx hst
    by_cases hxn : x.name = n
    · simp only [hxn, if_true] at hst ⊢
      exact hidle x hx hxn hst
    · simp only [hxn, if_false] at hst ⊢
      exact hs.idle x hx hst

theorem handleChild_good (s : St) (h : Good s) (n : Nat) (p : PState) : Good (handleChild s n p) := by
  unfold handleChild
  cases hf : findChild s n with
  | none => exact h
  | some c =>
    obtain ⟨hcm, hcn⟩ := findChild_some hf
    by_cases hs : c.started = true
    · simp only [hs, Bool.not_true, Bool.false_eq_true, if_false]
      by_cases hp : s.prios = []
      · -- no priorities: sync does nothing
        have : sync (modChild s n fun c => applyState s.now c p) (some n) = modChild s n fun c => applyState s.now c p := by
          unfold sync; show syncFrom _ _ (modChild s n _).prios = _
          have : (modChild s n fun c => applyState s.now c p).prios = [] := hp
          rw [this]; rfl
        rw [this]
        refine ⟨?_, fun hh => absurd hp hh, fun _ => h.none hp⟩
        apply struct_modChild s h.st n _ (fun c => applyState_name _ c _)
        intro x hx hxn hst
        have : x = c := eq_of_nodup_names h.st.cn hx hcm (hxn.trans hcn.symm)
        subst this
        rw [applyState_started, hs] at hst
        cases hst
      · have hst : Struct (modChild s n fun c => applyState s.now c p) := by
          apply struct_modChild s h.st n _ (fun c => applyState_name _ c _)
          intro x hx hxn hst
          have : x = c := eq_of_nodup_names h.st.cn hx hcm (hxn.trans hcn.symm)
          subst this
          rw [applyState_started, hs] at hst
          cases hst
        have hup : PreUp (modChild s n fun c => applyState s.now c p) (some n) := by
          intro c' hin hf' hne
          have hne' : c'.name ≠ n := fun hh => hne (by rw [hh])
          rw [modChild_findChild s n _ (fun c => applyState_name _ c _)] at hf'
          cases hf0 : findChild s c'.name with
          | none => simp [hf0] at hf'
          | some c0 =>
            obtain ⟨_, hc0n⟩ := findChild_some hf0
            simp only [hf0, Option.map_some, hc0n, hne', if_false, Option.some.injEq] at hf'
            subst hf'
            exact good_preUp_other h c0 hin hf0 (by simp)
        exact (sync_good _ hst (some n) hup hp).1
    · have hs' : c.started = false := by simpa using hs
      simp only [hs', Bool.not_false, if_true]
      exact h

theorem good_queue (s : St) (h : Good s) (q : List (Nat × PState)) : Good { s with queue := q } :=
  ⟨⟨h.st.pn, h.st.cn, h.st.has, h.st.idle⟩, fun hp => ⟨(h.sel hp).ex⟩, h.none⟩

theorem drain_good (fuel : Nat) (s : St) (h : Good s) : Good (drain fuel s) := by
  induction fuel generalizing s with
  | zero => exact h
  | succ k ih =>
    unfold drain
    split
    · exact h
    · exact ih _ (handleChild_good _ (good_queue s h _) _ _)

theorem settle_good (s : St) (h : Good s) : Good (settle s) := drain_good _ s h

theorem timerFire_good (s : St) (h : Good s) (n : Nat) : Good (timerFire s n) := by
  unfold timerFire
  apply settle_good
  have hst : Struct (modChild s n fun c => { c with timer := none }) := by
    apply struct_modChild s h.st n (fun c => { c with timer := none }) (fun c => rfl)
    intro x hx _ hst
    exact ⟨(h.st.idle x hx hst).1, rfl⟩
  by_cases hp : s.prios = []
  · have : sync (modChild s n fun c => { c with timer := none }) none = modChild s n fun c => { c with timer := none } := by
      unfold sync; show syncFrom _ _ (modChild s n _).prios = _
      have : (modChild s n fun c => { c with timer := none }).prios = [] := hp
      rw [this]; rfl
    rw [this]
    exact ⟨hst, fun hh => absurd hp hh, fun _ => h.none hp⟩
  · have hup : PreUp (modChild s n fun c => { c with timer := none }) none := by
      intro c' hin hf' _
      rw [modChild_findChild s n (fun c => { c with timer := none }) (fun c => rfl)] at hf'
      cases hf0 : findChild s c'.name with
      | none => simp [hf0] at hf'
      | some c0 =>
        simp only [hf0, Option.map_some, Option.some.injEq] at hf'
        have hl := good_preUp_other h c0 (by
          obtain ⟨_, hc0n⟩ := findChild_some hf0
          rw [hc0n]; exact hin) (by
          obtain ⟨_, hc0n⟩ := findChild_some hf0
          rw [hc0n]; exact hf0) (by simp)
        rw [← hf']
        show s.lastUp = _
        rw [hl]; split <;> rfl
    exact (sync_good _ hst none hup hp).1

/-! ### UpdateClientConnState -/

structure CS (s : St) : Prop where
  cn : (names s.children).Nodup
  idle : ∀ c ∈ s.children, c.started = false → c.st = initState ∧ c.timer = none

theorem cs_of_map {s t : St} (h : CS s) (g : Child → Child) (hg : ∀ x, (g x).name = x.name)
    (hc : t.children = s.children.map g)
    (hidle : ∀ x ∈ s.children, (g x).started = false → (g x).st = initState ∧ (g x).timer = none) :
    CS t ∧ names t.children = names s.children := by
  refine ⟨⟨?_, ?_⟩, ?_⟩
  · rw [hc, names_map hg]; exact h.cn
  · intro c hc' hs
    rw [hc] at hc'
    obtain ⟨x, hx, rfl⟩ := List.mem_map.mp hc'
    exact hidle x hx hs
  · rw [hc, names_map hg]

theorem stopChild_cs (s : St) (h : CS s) (n : Nat) (imm : Bool) :
    CS (stopChild s n imm) ∧ names (stopChild s n imm).children = names s.children := by
  obtain ⟨h1, _⟩ := stopChild_children s h.cn n imm
  apply cs_of_map h (stopF n) (stopF_name n) h1
  intro x hx hst
  unfold stopF at hst ⊢
  by_cases hc : x.name = n ∧ x.started = true
  · simp only [hc, and_self, if_true]; exact ⟨rfl, rfl⟩
  · simp only [hc, if_false] at hst ⊢
    exact h.idle x hx hst

theorem insertChild_perm (c : Child) (l : List Child) : (insertChild c l).Perm (c :: l) := by
  induction l with
  | nil => exact List.Perm.refl _
  | cons x xs ih =>
    unfold insertChild
    split
    · exact List.Perm.refl _
    · exact (List.Perm.cons x ih).trans (List.Perm.swap c x xs)

theorem updChild_cs (s : St) (h : CS s) (nt : Nat × Nat) :
    CS (updChild s nt) ∧ (∀ m, m ∈ names s.children → m ∈ names (updChild s nt).children) ∧
    nt.1 ∈ names (updChild s nt).children ∧
    (∀ m, m ∈ names (updChild s nt).children → m ∈ names s.children ∨ m = nt.1) := by
  unfold updChild
  cases hf : findChild s nt.1 with
  | none =>
    have hnot := findChild_none_iff.mp hf
    have hperm := insertChild_perm ⟨nt.1, nt.2, false, initState, false, none⟩ s.children
    have hnames : (names (insertChild ⟨nt.1, nt.2, false, initState, false, none⟩ s.children)).Perm (nt.1 :: names s.children) := by
      have := hperm.map (·.name); simpa [names] using this
    refine ⟨⟨?_, ?_⟩, ?_, ?_, ?_⟩
    · show (names (insertChild _ s.children)).Nodup
      rw [hnames.nodup_iff]; exact List.nodup_cons.mpr ⟨hnot, h.cn⟩
    · intro c hc hs
      have := hperm.mem_iff.mp hc
      rcases List.mem_cons.mp this with rfl | hm
      · exact ⟨rfl, rfl⟩
      · exact h.idle c hm hs
    · intro m hm; exact hnames.mem_iff.mpr (List.mem_cons_of_mem _ hm)
    · exact hnames.mem_iff.mpr (List.mem_cons_self)
    · intro m hm
      rcases List.mem_cons.mp (hnames.mem_iff.mp hm) with h1 | h1
      · exact Or.inr h1
      · exact Or.inl h1
  | some c =>
    simp only
    -- first stage: possibly stop + retype
    obtain ⟨s1, hs1, hcs1, hn1⟩ : ∃ s1 : St, s1 = (if c.typ ≠ nt.2 then modChild (stopChild s nt.1 true) nt.1 fun c => { c with typ := nt.2 } else s) ∧
        CS s1 ∧ names s1.children = names s.children := by
      refine ⟨_, rfl, ?_⟩
      split
      · obtain ⟨k1, k2⟩ := stopChild_cs s h nt.1 true
        have := cs_of_map (t := modChild (stopChild s nt.1 true) nt.1 fun c => { c with typ := nt.2 }) k1
          (fun c => if c.name = nt.1 then { c with typ := nt.2 } else c) (by intro x; split <;> rfl) rfl (by
            intro x hx hst
            by_cases hxn : x.name = nt.1
            · simp only [hxn, if_true] at hst ⊢; exact k1.idle x hx hst
            · simp only [hxn, if_false] at hst ⊢; exact k1.idle x hx hst)
        exact ⟨this.1, this.2.trans k2⟩
      · exact ⟨h, rfl⟩
    rw [← hs1]
    have hmem : nt.1 ∈ names s.children := by
      obtain ⟨hc, hcn⟩ := findChild_some hf
      rw [← hcn]; exact List.mem_map_of_mem hc
    have key : ∀ t : St, t.children = s1.children → CS t ∧ (∀ m, m ∈ names s.children → m ∈ names t.children) ∧
        nt.1 ∈ names t.children ∧ (∀ m, m ∈ names t.children → m ∈ names s.children ∨ m = nt.1) := by
      intro t ht
      refine ⟨⟨by rw [ht]; exact hcs1.cn, by rw [ht]; exact hcs1.idle⟩, ?_, ?_, ?_⟩
      · intro m hm; rw [ht, hn1]; exact hm
      · rw [ht, hn1]; exact hmem
      · intro m hm; rw [ht, hn1] at hm; exact Or.inl hm
    split
    · split
      · exact key _ rfl
      · exact key _ rfl
    · exact key _ rfl

theorem foldl_updChild_cs (kids : List (Nat × Nat)) (s : St) (h : CS s) :
    CS (kids.foldl updChild s) ∧ (∀ nt ∈ kids, nt.1 ∈ names (kids.foldl updChild s).children) ∧
    (∀ m, m ∈ names s.children → m ∈ names (kids.foldl updChild s).children) := by
  induction kids generalizing s with
  | nil => exact ⟨h, by simp, fun m hm => hm⟩
  | cons nt rest ih =>
    simp only [List.foldl_cons]
    obtain ⟨h1, h2, h3, _⟩ := updChild_cs s h nt
    obtain ⟨i1, i2, i3⟩ := ih (updChild s nt) h1
    refine ⟨i1, ?_, fun m hm => i3 m (h2 m hm)⟩
    intro x hx
    rcases List.mem_cons.mp hx with rfl | hx
    · exact i3 _ h3
    · exact i2 x hx

theorem foldl_stop_cs (l : List Nat) (s : St) (h : CS s) :
    CS (l.foldl (fun s n => stopChild s n true) s) ∧ names (l.foldl (fun s n => stopChild s n true) s).children = names s.children ∧
    (l.foldl (fun s n => stopChild s n true) s).inUse = s.inUse := by
  induction l generalizing s with
  | nil => exact ⟨h, rfl, rfl⟩
  | cons n rest ih =>
    simp only [List.foldl_cons]
    obtain ⟨h1, h2⟩ := stopChild_cs s h n true
    obtain ⟨i1, i2, i3⟩ := ih (stopChild s n true) h1
    exact ⟨i1, i2.trans h2, i3.trans (stopChild_children s h.cn n true).2.2.1⟩

theorem dropChildren_cs (s : St) (h : CS s) (keep : List Nat) :
    CS (dropChildren s keep) ∧ (∀ m, m ∈ names (dropChildren s keep).children ↔ (m ∈ names s.children ∧ m ∈ keep)) ∧
    (dropChildren s keep).inUse = s.inUse := by
  unfold dropChildren
  simp only
  obtain ⟨h1, h2, h3⟩ := foldl_stop_cs ((s.children.filter fun c => !keep.contains c.name).map (·.name)) s h
  refine ⟨⟨?_, ?_⟩, ?_, h3⟩
  · exact List.Nodup.sublist (List.Sublist.map _ List.filter_sublist) h1.cn
  · intro c hc hs
    exact h1.idle c (List.mem_filter.mp hc).1 hs
  · intro m
    simp only [names, List.mem_map, List.mem_filter]
    constructor
    · rintro ⟨c, ⟨hc, hk⟩, rfl⟩
      refine ⟨?_, by simpa using hk⟩
      have : c.name ∈ names s.children := by rw [← h2]; exact List.mem_map_of_mem hc
      simpa [names] using this
    · rintro ⟨⟨c, hc, rfl⟩, hk⟩
      have : c.name ∈ names (List.foldl (fun s n => stopChild s n true) s
          ((s.children.filter fun c => !keep.contains c.name).map (·.name))).children := by
        rw [h2]; exact List.mem_map_of_mem hc
      obtain ⟨c', hc', hn⟩ := List.mem_map.mp this
      exact ⟨c', ⟨hc', by rw [hn]; simpa using hk⟩, hn⟩

/-- a config the xDS tree can produce: distinct priorities, one child per priority name -/
def ValidCfg (prios : List Nat) (kids : List (Nat × Nat)) : Prop :=
  prios.Nodup ∧ ∀ n ∈ prios, n ∈ kids.map (·.1)

theorem update_good (s : St) (h : Good s) (prios : List Nat) (kids : List (Nat × Nat)) (hv : ValidCfg prios kids) :
    Good (update s prios kids) := by
  unfold update
  simp only
  have hcs : CS s := ⟨h.st.cn, h.st.idle⟩
  obtain ⟨f1, f2, _⟩ := foldl_updChild_cs kids s hcs
  obtain ⟨d1, d2, d3⟩ := dropChildren_cs (kids.foldl updChild s) f1 (kids.map (·.1))
  have hst : Struct { dropChildren (kids.foldl updChild s) (kids.map (·.1)) with prios := prios } := by
    refine ⟨hv.1, d1.cn, ?_, d1.idle⟩
    intro n hn
    have hk := hv.2 n hn
    have : n ∈ names (dropChildren (kids.foldl updChild s) (kids.map (·.1))).children := by
      rw [d2]
      obtain ⟨nt, hnt, rfl⟩ := List.mem_map.mp hk
      exact ⟨f2 nt hnt, hk⟩
    cases hf : findChild { dropChildren (kids.foldl updChild s) (kids.map (·.1)) with prios := prios } n with
    | none => exact absurd this (findChild_none_iff.mp hf)
    | some _ => rfl
  by_cases hp : prios = []
  · simp only [hp, List.isEmpty_nil, if_true]
    subst hp
    refine ⟨⟨hst.pn, hst.cn, hst.has, hst.idle⟩, fun hh => absurd rfl hh, fun _ => ⟨rfl, Or.inr rfl⟩⟩
  · have hpe : prios.isEmpty = false := by cases prios with | nil => exact absurd rfl hp | cons _ _ => rfl
    simp only [hpe, Bool.false_eq_true, if_false]
    apply settle_good
    refine (sync_good _ hst _ ?_ hp).1
    intro c hin _ hne
    exact absurd hin hne

/-! ### reachable states -/

def validOp : Op → Prop
  | .update prios kids => ValidCfg prios kids
  | _ => True

inductive Reach : St → Prop
  | init : Reach GrpcModel.Priority.init
  | step {s : St} (op : Op) (hv : validOp op) : Reach s → Reach (step s op)

theorem good_congr {s t : St} (h : Good s) (hc : t.children = s.children) (hp : t.prios = s.prios)
    (hu : t.inUse = s.inUse) (hl : t.lastUp = s.lastUp) : Good t := by
  have hfc : ∀ n, findChild t n = findChild s n := by intro n; unfold findChild; rw [hc]
  refine ⟨⟨by rw [hp]; exact h.st.pn, by rw [hc]; exact h.st.cn, ?_, by rw [hc]; exact h.st.idle⟩, ?_, ?_⟩
  · intro n hn; rw [hfc]; exact h.st.has n (by rw [← hp]; exact hn)
  · intro hne
    obtain ⟨above, u, below, c, h1, h2, h3, h4, h5, h6, h7, h8⟩ := (h.sel (by rw [← hp]; exact hne)).ex
    exact ⟨above, u, below, c, by rw [hp]; exact h1, by rw [hu]; exact h2, by rw [hfc]; exact h3, h4, h5,
      by intro a ha; rw [hfc]; exact h6 a ha, by intro b hb; rw [hfc]; exact h7 b hb, by rw [hl]; exact h8⟩
  · intro he; rw [hu, hl]; exact h.none (by rw [← hp]; exact he)

theorem runCallback_eq (s : St) : runCallback s =
    match s.pending with
    | [] => s
    | (n, d) :: rest =>
      match findChild s n with
      | none => { s with pending := rest }
      | some c => if c.timer = some d then timerFire { s with pending := rest } n else { s with pending := rest } := by
  unfold runCallback
  cases s.pending with
  | nil => rfl
  | cons x rest => obtain ⟨n, d⟩ := x; rfl

theorem step_good (s : St) (h : Good s) (op : Op) (hv : validOp op) : Good (step s op) := by
  have hclear : Good (clearOut s) := good_congr h rfl rfl rfl rfl
  cases op with
  | update prios kids => exact update_good _ hclear prios kids hv
  | child n conn =>
    show Good ((childReport (clearOut s) n conn).getD (clearOut s))
    unfold childReport
    split
    · exact hclear
    · simp only [Option.getD_some]
      apply settle_good
      apply handleChild_good
      exact good_congr hclear rfl rfl rfl rfl
  | timer n =>
    show Good (match findChild s n with
      | some c => if c.timer.isSome then timerFire (clearOut s) n else clearOut s
      | none => clearOut s)
    split
    · split
      · exact timerFire_good _ hclear n
      · exact hclear
    · exact hclear
  | expire n =>
    show Good (match findSb s n with
      | some b => if b.cachedUntil.isSome then cacheExpire (clearOut s) n else clearOut s
      | none => clearOut s)
    split
    · split
      · exact good_congr hclear rfl rfl rfl rfl
      · exact hclear
    · exact hclear
  | advance d => exact good_congr hclear rfl rfl rfl rfl
  | dispatch n =>
    show Good (dispatch (clearOut s) n)
    unfold dispatch
    repeat' split
    all_goals first | exact hclear | exact good_congr hclear rfl rfl rfl rfl
  | runcb =>
    show Good (runCallback (clearOut s))
    rw [runCallback_eq]
    split
    · exact hclear
    · next n d rest _ =>
      have h1 : Good { clearOut s with pending := rest } := good_congr hclear rfl rfl rfl rfl
      split
      · exact h1
      · split
        · exact timerFire_good _ h1 n
        · exact h1

theorem reach_good {s : St} (h : Reach s) : Good s := by
  induction h with
  | init =>
    refine ⟨⟨by simp [GrpcModel.Priority.init], by simp [GrpcModel.Priority.init, names], by simp [GrpcModel.Priority.init],
      by simp [GrpcModel.Priority.init]⟩, fun hh => absurd rfl hh, fun _ => ⟨rfl, Or.inl rfl⟩⟩
  | step op hv _ ih => exact step_good _ ih op hv

end GrpcProofs.Lemmas.Priority
