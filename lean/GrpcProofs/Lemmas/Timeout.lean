import GrpcModel.Model.Timeout
namespace GrpcProofs.Lemmas.Timeout
open GrpcModel.Timeout GrpcModel.Generated

theorem cdiv_spec (d r : Nat) (hr : 0 < r) : d ≤ cdiv d r * r ∧ cdiv d r * r < d + r := by
  unfold cdiv
  have h1 := Nat.div_add_mod d r
  have h2 := Nat.mod_lt d hr
  split
  · constructor
    · rw [Nat.add_mul]; have : r * (d / r) = d / r * r := Nat.mul_comm _ _; omega
    · rw [Nat.add_mul]; have : r * (d / r) = d / r * r := Nat.mul_comm _ _; omega
  · have : d % r = 0 := by omega
    have : r * (d / r) = d / r * r := Nat.mul_comm _ _
    constructor <;> omega

theorem encode_decode (t : Nat) (h0 : 0 < t) (hmax : t ≤ maxInt64) :
    t ≤ decode (encode t).1 (encode t).2 ∧ decode (encode t).1 (encode t).2 < t + (encode t).2.ns
    ∧ 1 ≤ (encode t).1 ∧ (encode t).1 ≤ 99999999 := by
  have s1 := cdiv_spec t 1 (by decide)
  have s2 := cdiv_spec t 1000 (by decide)
  have s3 := cdiv_spec t 1000000 (by decide)
  have s4 := cdiv_spec t 1000000000 (by decide)
  have s5 := cdiv_spec t 60000000000 (by decide)
  have s6 := cdiv_spec t 3600000000000 (by decide)
  have hm : maxTimeoutValue = 99999999 := rfl
  have hi : maxInt64 = 9223372036854775807 := rfl
  unfold encode
  by_cases c1 : cdiv t 1 ≤ maxTimeoutValue
  · rw [if_pos c1]; simp [decode, TUnit.ns]; omega
  rw [if_neg c1]
  by_cases c2 : cdiv t 1000 ≤ maxTimeoutValue
  · rw [if_pos c2]; simp [decode, TUnit.ns]; omega
  rw [if_neg c2]
  by_cases c3 : cdiv t 1000000 ≤ maxTimeoutValue
  · rw [if_pos c3]; simp [decode, TUnit.ns]; omega
  rw [if_neg c3]
  by_cases c4 : cdiv t 1000000000 ≤ maxTimeoutValue
  · rw [if_pos c4]; simp [decode, TUnit.ns]; omega
  rw [if_neg c4]
  by_cases c5 : cdiv t 60000000000 ≤ maxTimeoutValue
  · rw [if_pos c5]; simp [decode, TUnit.ns]; omega
  rw [if_neg c5]
  simp only [decode, TUnit.ns]
  by_cases c6 : cdiv t 3600000000000 > maxInt64 / 3600000000000
  · simp [c6]; omega
  · simp [c6]; omega

def dval (b : UInt8) : Nat := b.toNat - 48
def valRev : List UInt8 → Nat
  | [] => 0
  | b :: t => dval b + 10 * valRev t

theorem ofNat_digit (k : Nat) (h : k < 10) : (UInt8.ofNat (48 + k)).toNat = 48 + k := by
  rw [UInt8.toNat_ofNat']; omega

theorem isDigit_ofNat (k : Nat) (h : k < 10) : isDigit (UInt8.ofNat (48 + k)) = true := by
  have := ofNat_digit k h
  simp only [isDigit, UInt8.le_iff_toNat_le, this, Bool.and_eq_true, decide_eq_true_eq]
  decide +revert

theorem dval_ofNat (k : Nat) (h : k < 10) : dval (UInt8.ofNat (48 + k)) = k := by
  simp only [dval, ofNat_digit k h]; omega

theorem digitsRev_spec (fuel n : Nat) (h : n < fuel) :
    valRev (digitsRev fuel n) = n ∧ (digitsRev fuel n).all isDigit = true ∧ (digitsRev fuel n) ≠ [] := by
  induction fuel generalizing n with
  | zero => omega
  | succ f ih =>
    unfold digitsRev
    split
    · rename_i hn
      simp only [valRev, dval_ofNat n hn, List.all_cons, isDigit_ofNat n hn, List.all_nil]
      simp
    · rename_i hn
      have hm : n % 10 < 10 := Nat.mod_lt _ (by decide)
      have := ih (n / 10) (by omega)
      simp only [valRev, dval_ofNat _ hm, List.all_cons, isDigit_ofNat _ hm, this]
      simp
      omega

theorem digitsRev_len (fuel n k : Nat) (hk : 1 ≤ k) (h : n < 10 ^ k) : (digitsRev fuel n).length ≤ k := by
  induction fuel generalizing n k with
  | zero => simp [digitsRev]
  | succ f ih =>
    unfold digitsRev
    split
    · simp; omega
    · rename_i hn
      cases k with
      | zero => omega
      | succ k =>
        cases k with
        | zero => simp at h; omega
        | succ k =>
          have : n / 10 < 10 ^ (k + 1) := by
            rw [Nat.div_lt_iff_lt_mul (by decide)]
            rw [Nat.pow_succ] at h; omega
          have := ih (n / 10) (k + 1) (by omega) this
          simp; omega

theorem foldl_digits (l : List UInt8) :
    l.reverse.foldl (fun a b => a * 10 + (b.toNat - 48)) 0 = valRev l := by
  rw [List.foldl_reverse]
  induction l with
  | nil => rfl
  | cons b t ih => simp only [List.foldr_cons, ih, valRev, dval]; omega

theorem parseDigits_reverse (l : List UInt8) (hne : l ≠ []) (hd : l.all isDigit = true) :
    parseDigits l.reverse = some (valRev l) := by
  unfold parseDigits
  split
  · rename_i h; simp at h; exact absurd h hne
  · rename_i h
    have : l.reverse.all isDigit = true := by simpa using hd
    rw [if_pos this, foldl_digits]

theorem fmtNat_spec (v : Nat) :
    parseDigits (fmtNat v) = some v ∧ (fmtNat v).all isDigit = true ∧ 1 ≤ (fmtNat v).length := by
  have ⟨h1, h2, h3⟩ := digitsRev_spec (v + 1) v (by omega)
  unfold fmtNat
  refine ⟨?_, ?_, ?_⟩
  · rw [parseDigits_reverse _ h3 h2, h1]
  · simpa using h2
  · have : (digitsRev (v + 1) v).length ≠ 0 := by simpa using h3
    simp; omega

theorem fmtNat_len (v : Nat) (h : v ≤ 99999999) : (fmtNat v).length ≤ 8 := by
  unfold fmtNat
  have := digitsRev_len (v + 1) v 8 (by decide) (by omega)
  simpa using this

theorem unit_byte (un : TUnit) : unitOfByte un.byte = some un := by cases un <;> decide

theorem wf_append (ds : List UInt8) (un : TUnit) (h1 : 1 ≤ ds.length) (h8 : ds.length ≤ 8)
    (hd : ds.all isDigit = true) : wellFormed (ds ++ [un.byte]) = true := by
  simp [wellFormed, unit_byte, hd, h1, h8]

theorem decodeBytes_append (ds : List UInt8) (un : TUnit) (h1 : 1 ≤ ds.length) (h8 : ds.length ≤ 8) :
    decodeBytes (ds ++ [un.byte]) = (parseDigits ds).map (fun v => decode v un) := by
  unfold decodeBytes
  simp only [List.length_append, List.length_singleton]
  rw [if_neg (by omega), if_neg (by omega)]
  simp [unit_byte]
  cases parseDigits ds <;> rfl

theorem encode_wellformed (t : Int) (h0 : 0 < t) (hmax : t ≤ maxInt64) :
    wellFormed (encodeBytes t) = true := by
  have ht : 0 < t.toNat ∧ t.toNat ≤ maxInt64 := by omega
  have e := encode_decode t.toNat ht.1 ht.2
  have f := fmtNat_spec (encode t.toNat).1
  have l := fmtNat_len (encode t.toNat).1 e.2.2.2
  unfold encodeBytes
  rw [if_neg (by omega)]
  exact wf_append _ _ f.2.2 l f.2.1

theorem decode_encode_bytes (t : Int) (h0 : 0 < t) (hmax : t ≤ maxInt64) :
    ∃ d', decodeBytes (encodeBytes t) = some d' ∧ t.toNat ≤ d' ∧ d' < t.toNat + (encode t.toNat).2.ns := by
  have ht : 0 < t.toNat ∧ t.toNat ≤ maxInt64 := by omega
  have e := encode_decode t.toNat ht.1 ht.2
  have f := fmtNat_spec (encode t.toNat).1
  have l := fmtNat_len (encode t.toNat).1 e.2.2.2
  refine ⟨decode (encode t.toNat).1 (encode t.toNat).2, ?_, e.1, e.2.1⟩
  unfold encodeBytes
  rw [if_neg (by omega)]
  show decodeBytes (fmtNat (encode t.toNat).1 ++ [(encode t.toNat).2.byte]) = _
  rw [decodeBytes_append _ _ f.2.2 l, f.1]; rfl


theorem isDigit_range (b : UInt8) (h : isDigit b = true) : 48 ≤ b.toNat ∧ b.toNat ≤ 57 := by
  simp only [isDigit, Bool.and_eq_true, decide_eq_true_eq, UInt8.le_iff_toNat_le] at h
  exact h

theorem foldl_bound (ds : List UInt8) (a : Nat) (hd : ds.all isDigit = true) :
    ds.foldl (fun a b => a * 10 + (b.toNat - 48)) a < (a + 1) * 10 ^ ds.length := by
  induction ds generalizing a with
  | nil => simp
  | cons b t ih =>
    simp only [List.all_cons, Bool.and_eq_true] at hd
    have r := isDigit_range b hd.1
    have := ih (a * 10 + (b.toNat - 48)) hd.2
    simp only [List.foldl_cons, List.length_cons]
    have h2 : (a * 10 + (b.toNat - 48) + 1) * 10 ^ t.length ≤ (a + 1) * 10 ^ (t.length + 1) := by
      have e : (a + 1) * 10 ^ (t.length + 1) = ((a + 1) * 10) * 10 ^ t.length := by
        rw [Nat.pow_succ, Nat.mul_comm (10 ^ t.length) 10, Nat.mul_assoc]
      rw [e]
      apply Nat.mul_le_mul_right
      omega
    omega

theorem parseDigits_some (ds : List UInt8) :
    (parseDigits ds).isSome = (decide (1 ≤ ds.length) && ds.all isDigit) := by
  unfold parseDigits
  cases ds with
  | nil => simp
  | cons b t => by_cases h : (b :: t).all isDigit = true <;> simp [h]

theorem parseDigits_bound (ds : List UInt8) (v : Nat) (h : parseDigits ds = some v) : v < 10 ^ ds.length := by
  unfold parseDigits at h
  cases ds with
  | nil => simp at h
  | cons b t =>
    by_cases hd : (b :: t).all isDigit = true
    · simp only [hd, if_true, Option.some.injEq] at h
      have := foldl_bound (b :: t) 0 hd
      rw [h] at this; simpa using this
    · simp [hd] at h

theorem decodeBytes_concat (ds : List UInt8) (l : UInt8) :
    decodeBytes (ds ++ [l]) =
      if 1 ≤ ds.length ∧ ds.length ≤ 8 then
        (unitOfByte l).bind fun un => (parseDigits ds).map fun v => decode v un
      else none := by
  unfold decodeBytes
  simp only [List.length_append, List.length_singleton]
  by_cases h1 : ds.length + 1 < 2
  · rw [if_pos h1, if_neg (by omega)]
  rw [if_neg h1]
  by_cases h2 : ds.length + 1 > 9
  · rw [if_pos h2, if_neg (by omega)]
  rw [if_neg h2, if_pos (by omega)]
  simp
  cases unitOfByte l <;> simp
  cases parseDigits ds <;> simp

theorem decode_accepts_iff (bs : List UInt8) : (decodeBytes bs).isSome = wellFormed bs := by
  rcases List.eq_nil_or_concat bs with h | ⟨ds, l, h⟩
  · subst h; rfl
  · subst h
    rw [List.concat_eq_append, decodeBytes_concat]
    simp only [wellFormed, List.getLast?_concat, List.dropLast_concat]
    have hp := parseDigits_some ds
    by_cases h1 : 1 ≤ ds.length ∧ ds.length ≤ 8
    · rw [if_pos h1]
      cases hu : unitOfByte l with
      | none => simp
      | some un =>
        cases hq : parseDigits ds with
        | none => rw [hq] at hp; simp at hp ⊢; intro _ _; exact hp h1.1
        | some v => rw [hq] at hp; simp at hp ⊢; simp [h1]; exact hp.2
    · rw [if_neg h1]
      simp
      intro _ a b; exact absurd ⟨a, b⟩ h1

theorem unit_ns_le (un : TUnit) : un.ns ≤ 3600000000000 := by cases un <;> decide

theorem decode_no_overflow (bs : List UInt8) (d : Nat) (h : decodeBytes bs = some d) : d ≤ maxInt64 := by
  rcases List.eq_nil_or_concat bs with h0 | ⟨ds, l, h0⟩
  · subst h0; simp [decodeBytes] at h
  · subst h0
    rw [List.concat_eq_append, decodeBytes_concat] at h
    by_cases h1 : 1 ≤ ds.length ∧ ds.length ≤ 8
    · rw [if_pos h1] at h
      cases hu : unitOfByte l with
      | none => rw [hu] at h; simp at h
      | some un =>
        cases hq : parseDigits ds with
        | none => rw [hu, hq] at h; simp at h
        | some v =>
          rw [hu, hq] at h
          simp at h
          have hb := parseDigits_bound ds v hq
          have : (10:Nat) ^ ds.length ≤ 10 ^ 8 := Nat.pow_le_pow_right (by decide) h1.2
          have hv : v < 100000000 := by omega
          subst h
          unfold decode
          have hi : maxInt64 = 9223372036854775807 := rfl
          split
          · omega
          · rename_i hc
            cases un <;> simp [TUnit.ns] at hc ⊢ <;> omega
    · rw [if_neg h1] at h; simp at h

end GrpcProofs.Lemmas.Timeout
