/-
Helper lemmas for C04, connection level (stream registration interleaved with BDP updates).
-/
import GrpcModel.Model.InFlowConn
import GrpcProofs.Lemmas.InFlow
namespace GrpcProofs.Lemmas.InFlowConn
open GrpcModel.InFlow GrpcModel.InFlowConn GrpcModel.Generated GrpcProofs.Lemmas.InFlow

/-- every open stream satisfies the per-stream invariant and its configured window is the connection's
    current initial window -/
structure CInv (c : Conn) : Prop where
  iwsMax : c.iws ≤ 2147483647
  each : ∀ e ∈ c.streams, FInv false e.2 ∧ e.2.g.cfg = c.iws

theorem cinv_init (l : Nat) (h : l ≤ 2147483647) : CInv (Conn.init l) :=
  ⟨h, by intro e he; cases he⟩

theorem next_cfg (g : Ghost) (op : Op) (out : Out) (h : isBdp op = false) : (g.next op out).cfg = g.cfg := by
  cases op with
  | data size pad =>
    cases out with
    | accepted => cases pad <;> rfl
    | rejected => rfl
    | wu w => rfl
    | done => rfl
  | pad p =>
    cases out with
    | wu w =>
      simp only [Ghost.next]
      cases hin : g.inflight with
      | none => rfl
      | some sp => rfl
    | accepted => rfl
    | rejected => rfl
    | done => rfl
  | req n => cases out <;> rfl
  | read k => cases out <;> rfl
  | bdp n => cases h

theorem step_cfg (s : State) (op : Op) (h : isBdp op = false) : (step s op).1.g.cfg = s.g.cfg := by
  rw [step_eq]
  exact next_cfg s.g op _ h

theorem bdp_legal (st : State) (n : Nat) (hi : FInv false st) (h1 : st.g.cfg ≤ n) (h2 : n ≤ fcBdpLimit) :
    st.g.legal false st.f.delta (.bdp n) = true := by
  simp only [Ghost.legal, hi.alive, Bool.not_false, Bool.true_and, Bool.and_eq_true, decide_eq_true_eq,
    Bool.true_or]
  exact ⟨⟨h1, h2⟩, trivial⟩

theorem cstep_inv (c : Conn) (op : COp) (hi : CInv c) (hl : clegal c op = true) : CInv (cstep c op) := by
  obtain ⟨hm, he⟩ := hi
  cases op with
  | openS id =>
    simp only [cstep]
    split
    · exact ⟨hm, he⟩
    · refine ⟨hm, ?_⟩
      intro e hmem
      simp only [List.mem_append, List.mem_singleton] at hmem
      rcases hmem with h | h
      · exact he e h
      · subst h; exact ⟨finv_init false c.iws hm, rfl⟩
  | sop id op =>
    simp only [clegal, Bool.and_eq_true, Bool.not_eq_true', List.all_eq_true, Bool.or_eq_true,
      bne_iff_ne, ne_eq] at hl
    obtain ⟨⟨hnb, _⟩, hall⟩ := hl
    refine ⟨hm, ?_⟩
    intro e' hmem
    simp only [cstep, List.mem_filterMap] at hmem
    obtain ⟨e, hin, hse⟩ := hmem
    obtain ⟨hf, hc⟩ := he e hin
    unfold stepEntry at hse
    by_cases hid : e.1 = id
    · simp only [hid, ↓reduceIte] at hse
      by_cases hrej : (step e.2 op).2 = .rejected
      · simp [hrej] at hse
      · simp only [hrej, ↓reduceIte, Option.some.injEq] at hse
        subst hse
        have hleg : e.2.g.legal false e.2.f.delta op = true := by
          rcases hall e hin with h | h
          · exact absurd hid h
          · exact h
        rcases step_inv false e.2 op hf hleg with h | h
        · exact absurd h hrej
        · exact ⟨h, by rw [step_cfg _ _ hnb]; exact hc⟩
    · simp only [hid, ↓reduceIte, Option.some.injEq] at hse
      subst hse; exact ⟨hf, hc⟩
  | bdp n =>
    simp only [clegal, Bool.and_eq_true, decide_eq_true_eq] at hl
    obtain ⟨hge, hle⟩ := hl
    have hle' : n ≤ 16777216 := by rw [c_bdp] at hle; exact hle
    refine ⟨by simp only [cstep]; omega, ?_⟩
    intro e' hmem
    simp only [cstep, List.mem_map] at hmem
    obtain ⟨e, hin, hse⟩ := hmem
    subst hse
    obtain ⟨hf, hc⟩ := he e hin
    have hleg := bdp_legal e.2 n hf (by rw [hc]; exact hge) hle
    obtain ⟨ho, hinv, _⟩ := step_bdp false e.2 n hf hleg
    refine ⟨hinv, ?_⟩
    rw [step_eq] at ho ⊢
    simp only at ho ⊢
    rw [ho]; rfl
  | closeS id =>
    refine ⟨hm, ?_⟩
    intro e hmem
    simp only [cstep, List.mem_filter] at hmem
    exact he e hmem.1

theorem crun_inv (c : Conn) (ops : List COp) (hi : CInv c) (hl : clegalRun c ops = true) :
    CInv (crun c ops) := by
  induction ops generalizing c with
  | nil => exact hi
  | cons o os ih =>
    simp only [clegalRun, Bool.and_eq_true] at hl
    exact ih _ (cstep_inv c o hi hl.1) hl.2

/-- the per-stream invariant gives the restored window whenever nothing delivered is outstanding -/
theorem finv_restored (st : State) (hi : FInv false st) (h0 : st.g.outstanding = 0) : st.g.restored = true := by
  obtain ⟨ha, hc, hled, hpd, hdl, hpu, hlm, hdm, hsm, hst, hnn, hinf⟩ := hi
  have hpd0 : st.f.pd = 0 := by omega
  unfold Ghost.restored
  simp only [Bool.and_eq_true, Bool.or_eq_true, decide_eq_true_eq]
  rw [hc, hled, hpd0]
  refine ⟨?_, ?_⟩
  · rcases hpu with h | h
    · left; omega
    · right; omega
  · by_cases hz : st.f.limit = 0
    · exact Or.inl hz
    · right; rcases hpu with h | h <;> omega

theorem crun_append (c : Conn) (a b : List COp) : crun c (a ++ b) = crun (crun c a) b := by
  induction a generalizing c with
  | nil => rfl
  | cons o os ih => simp only [List.cons_append, crun, ih]

theorem clegalRun_append (c : Conn) (a b : List COp) :
    clegalRun c (a ++ b) = (clegalRun c a && clegalRun (crun c a) b) := by
  induction a generalizing c with
  | nil => simp [clegalRun, crun]
  | cons o os ih => simp only [List.cons_append, clegalRun, crun, ih, Bool.and_assoc]

end GrpcProofs.Lemmas.InFlowConn
