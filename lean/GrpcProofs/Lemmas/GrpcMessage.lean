/-
Helper lemmas for C08 (grpc-message percent-encoding), about lean/GrpcModel/Model/GrpcMessage.lean.
-/
import GrpcModel.Model.GrpcMessage
import GrpcProofs.Lemmas.Utf8
namespace GrpcProofs.Lemmas.GrpcMessage
open GrpcModel.GrpcMessage GrpcModel.Utf8 GrpcModel.Generated GrpcProofs.Lemmas.Utf8

theorem hexVal_hexUpper (n : Nat) (h : n < 16) : hexVal (hexUpper n) = some n := by
  have h' : ∀ n : Fin 16, hexVal (hexUpper n.val) = some n.val := by decide
  exact h' ⟨n, h⟩

theorem parse_pct (b : UInt8) :
    parseUint16_8 [hexUpper (b.toNat / 16), hexUpper (b.toNat % 16)] = some b.toNat := by
  have hb := b.toNat_lt
  simp only [parseUint16_8, List.isEmpty_cons, List.foldl_cons, List.foldl_nil,
    hexVal_hexUpper _ (show b.toNat / 16 < 16 by omega), hexVal_hexUpper _ (show b.toNat % 16 < 16 by omega)]
  simp; omega

theorem pct_head (b : UInt8) : pct b = [37, hexUpper (b.toNat / 16), hexUpper (b.toNat % 16)] := rfl

theorem decLoop_pct (b : UInt8) (X : List UInt8) : decLoop (pct b ++ X) = b :: decLoop X := by
  simp only [pct_head, List.cons_append, List.nil_append, decLoop]
  rw [parse_pct]
  simp [percentByte, byte_toNat]

theorem decLoop_cons (c : UInt8) (X : List UInt8) (h : c.toNat ≠ percentByte) :
    decLoop (c :: X) = c :: decLoop X := by
  match X with
  | [] => simp [decLoop]
  | [d] => simp [decLoop]
  | d :: e :: r => simp [decLoop, h]


theorem isPlain_ne_pct (b : UInt8) (h : isPlain b = true) : b.toNat ≠ percentByte := by
  simp only [isPlain, Bool.and_eq_true, decide_eq_true_eq, bne_iff_ne] at h
  exact h.2

theorem decLoop_encByte (size : Nat) (b : UInt8) (X : List UInt8) :
    decLoop (encByte size b ++ X) = b :: decLoop X := by
  unfold encByte
  split
  · exact decLoop_pct b X
  · split
    · rename_i h; exact decLoop_cons b X (isPlain_ne_pct b h)
    · exact decLoop_pct b X

theorem decLoop_flatMap (size : Nat) (l X : List UInt8) :
    decLoop (l.flatMap (encByte size) ++ X) = l ++ decLoop X := by
  induction l with
  | nil => rfl
  | cons b l ih => simp only [List.flatMap_cons, List.append_assoc, decLoop_encByte, ih, List.cons_append]

theorem decLoop_encRune (r size : Nat) (X : List UInt8) :
    decLoop (encRune r size ++ X) = encodeRune r ++ decLoop X := decLoop_flatMap size _ X

/-- the decoder undoes the encoder's loop: what comes back is Go's `string([]rune(msg))`. -/
theorem decLoop_encLoop (fuel : Nat) (msg : List UInt8) :
    decLoop (encLoop fuel msg) = sanitizeAux fuel msg := by
  induction fuel generalizing msg with
  | zero => rfl
  | succ fuel ih =>
    unfold encLoop sanitizeAux
    by_cases he : msg.isEmpty
    · simp [he, decLoop]
    · simp only [he, Bool.false_eq_true, if_false]
      have hne : msg ≠ [] := by simpa using he
      rw [decLoop_encRune, ih]
      by_cases hv : isInvalid (decodeRune msg) = true
      · have := encode_invalid msg hv
        simp only [hv, if_true, this.1, this.2]
      · have hv' : isInvalid (decodeRune msg) = false := by simpa using hv
        simp only [hv', Bool.false_eq_true, if_false, encode_decode msg hne hv']


theorem isPlain_ascii (b : UInt8) (h : isPlain b = true) : b.toNat < 0x80 := by
  simp only [isPlain, Bool.and_eq_true, decide_eq_true_eq] at h
  have : tildeByte = 126 := rfl
  omega

theorem encLoop_plain (fuel : Nat) (msg : List UInt8) (hf : msg.length ≤ fuel) (hp : msg.all isPlain = true) :
    encLoop fuel msg = msg := by
  induction fuel generalizing msg with
  | zero => simp at hf; subst hf; rfl
  | succ fuel ih =>
    match msg with
    | [] => rfl
    | b :: t =>
      simp only [List.all_cons, Bool.and_eq_true] at hp
      have ha := isPlain_ascii b hp.1
      simp only [encLoop, List.isEmpty_cons, Bool.false_eq_true, if_false, decodeRune_ascii b t ha, List.drop_succ_cons,
        List.drop_zero]
      rw [ih t (by simpa using hf) hp.2, encRune, encodeRune_1 _ (by omega), byte_toNat]
      simp [encByte, hp.1]

theorem encode_eq_unchecked (msg : List UInt8) : encode msg = encodeUnchecked msg := by
  unfold encode encodeUnchecked
  by_cases he : msg.isEmpty
  · have : msg = [] := by simpa using he
    subst this; rfl
  · simp only [he, Bool.false_eq_true, if_false]
    split
    · rename_i hp; exact (encLoop_plain _ msg (Nat.le_refl _) hp).symm
    · rfl

theorem decLoop_noEscape (msg : List UInt8) (h : hasEscape msg = false) : decLoop msg = msg := by
  match msg with
  | [] => rfl
  | [c] => rfl
  | [c, d] => rfl
  | c :: h1 :: h2 :: rest =>
    simp only [hasEscape, Bool.or_eq_false_iff, beq_eq_false_iff_ne] at h
    simp only [decLoop, h.1, if_false]
    rw [decLoop_noEscape (h1 :: h2 :: rest) h.2]

theorem decode_eq_decLoop (msg : List UInt8) : decode msg = decLoop msg := by
  unfold decode
  by_cases he : msg.isEmpty
  · have : msg = [] := by simpa using he
    subst this; rfl
  · simp only [he, Bool.false_eq_true, if_false]
    split
    · rfl
    · rename_i h; exact (decLoop_noEscape msg (by simpa using h)).symm


/-! ### printable output -/

theorem hexUpper_printable (n : Nat) (h : n < 16) : printable (hexUpper n) = true := by
  have h' : ∀ n : Fin 16, printable (hexUpper n.val) = true := by decide
  exact h' ⟨n, h⟩

theorem isPlain_printable (b : UInt8) (h : isPlain b = true) : printable b = true := by
  simp only [isPlain, Bool.and_eq_true, decide_eq_true_eq] at h
  simp only [printable, Bool.and_eq_true, decide_eq_true_eq]
  have : tildeByte = 126 := rfl
  have : spaceByte = 32 := rfl
  omega

theorem pct_printable (b : UInt8) : (pct b).all printable = true := by
  have hb := b.toNat_lt
  simp only [pct, List.all_cons, List.all_nil, Bool.and_true, Bool.and_eq_true]
  exact ⟨by decide, hexUpper_printable _ (by omega), hexUpper_printable _ (by omega)⟩

theorem encByte_printable (size : Nat) (b : UInt8) : (encByte size b).all printable = true := by
  unfold encByte
  split
  · exact pct_printable b
  · split
    · rename_i h; simp [isPlain_printable b h]
    · exact pct_printable b

theorem encRune_printable (r size : Nat) : (encRune r size).all printable = true := by
  unfold encRune
  simp only [List.all_flatMap]
  simp [encByte_printable]

theorem encLoop_printable (fuel : Nat) (msg : List UInt8) : (encLoop fuel msg).all printable = true := by
  induction fuel generalizing msg with
  | zero => rfl
  | succ fuel ih =>
    unfold encLoop
    split
    · rfl
    · simp only [List.all_append, Bool.and_eq_true]; exact ⟨encRune_printable _ _, ih _⟩

/-! ### the index-for-index decoder never leaves its bounds and equals the suffix recursion -/

theorem drop_facts (msg : List UInt8) (i : Nat) (c : UInt8) (rest : List UInt8) (hd : msg.drop i = c :: rest) :
    msg[i]? = some c ∧ msg.drop (i + 1) = rest ∧ msg.length = i + 1 + rest.length := by
  have h1 : (msg.drop i)[0]? = msg[i]? := by rw [List.getElem?_drop]; simp
  have h2 : (msg.drop i).drop 1 = msg.drop (i + 1) := by rw [List.drop_drop]
  have h3 := List.length_drop (i := i) (l := msg)
  rw [hd] at h1 h2 h3
  simp at h1 h2 h3
  have : i < msg.length := by
    rcases Nat.lt_or_ge i msg.length with h | h
    · exact h
    · rw [List.drop_eq_nil_of_le h] at hd; cases hd
  exact ⟨h1.symm, h2.symm, by omega⟩

theorem decIdx_eq (msg : List UInt8) (fuel i : Nat) (sb : List UInt8) (hf : msg.length - i ≤ fuel) :
    decIdx msg fuel i sb = some (sb ++ decLoop (msg.drop i)) := by
  induction fuel generalizing i sb with
  | zero =>
    have : msg.drop i = [] := List.drop_eq_nil_of_le (by omega)
    simp [decIdx, this, decLoop]
  | succ fuel ih =>
    unfold decIdx
    by_cases hi : i < msg.length
    · simp only [hi, if_true]
      match hd : msg.drop i with
      | [] => rw [List.drop_eq_nil_iff] at hd; omega
      | [c] =>
        obtain ⟨e1, e2, e3⟩ := drop_facts msg i c [] hd
        have hlt : ¬ (i + 2 < msg.length) := by simp at e3; omega
        simp only [e1, hlt, and_false, if_false]
        rw [ih (i + 1) _ (by omega), e2]; simp [decLoop]
      | [c, d] =>
        obtain ⟨e1, e2, e3⟩ := drop_facts msg i c [d] hd
        have hlt : ¬ (i + 2 < msg.length) := by simp at e3; omega
        simp only [e1, hlt, and_false, if_false]
        rw [ih (i + 1) _ (by omega), e2]; simp [decLoop]
      | c :: h1 :: h2 :: r =>
        obtain ⟨e1, e2, e3⟩ := drop_facts msg i c (h1 :: h2 :: r) hd
        obtain ⟨_, e4, _⟩ := drop_facts msg (i + 1) h1 (h2 :: r) e2
        obtain ⟨_, e5, _⟩ := drop_facts msg (i + 2) h2 r e4
        have hlt : i + 2 < msg.length := by simp at e3; omega
        have hs : slice? msg (i + 1) (i + 3) = some [h1, h2] := by
          simp only [slice?]
          rw [if_pos (by omega), e2]
          simp [show i + 3 - (i + 1) = 2 by omega]
        simp only [e1, hlt, and_true, hs]
        by_cases hc : c.toNat = percentByte
        · simp only [hc, if_true, decLoop]
          cases hp : parseUint16_8 [h1, h2] with
          | none => simp only []; rw [ih (i + 1) _ (by omega), e2]; simp
          | some v => simp only []; rw [ih (i + 3) _ (by omega), e5]; simp
        · simp only [hc, if_false, decLoop]
          rw [ih (i + 1) _ (by omega), e2]; simp
    · simp only [hi, if_false]
      have : msg.drop i = [] := List.drop_eq_nil_of_le (by omega)
      simp [this, decLoop]

theorem decodeUncheckedP_eq (msg : List UInt8) : decodeUncheckedP msg = some (decLoop msg) := by
  unfold decodeUncheckedP; rw [decIdx_eq msg _ 0 [] (by omega)]; simp

end GrpcProofs.Lemmas.GrpcMessage
