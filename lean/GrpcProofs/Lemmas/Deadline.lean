import GrpcModel.Model.Deadline
namespace GrpcProofs.Lemmas.Deadline
open GrpcModel.Deadline GrpcModel.Generated

theorem resume_none {b : Bool} {s : St} (h : wake b s = none) : ∀ fuel, resume b fuel s = s
  | 0 => rfl
  | fuel + 1 => by simp [resume, h]

theorem resume_some {b : Bool} {s s' : St} (h : wake b s = some s') (fuel : Nat) :
    resume b (fuel + 1) s = resume b fuel s' := by simp [resume, h]

theorem wake_returned (b : Bool) (s : St) (c : Nat) (h : s.pc = .returned c) : wake b s = none := by
  simp [wake, h]

theorem wake_app (b : Bool) (s : St) (h : s.pc = .app) : wake b s = none := by
  simp [wake, h]

/-- The state right after `ctxFire e`, before the RPC goroutine runs: the context is done and, if the
    watcher goroutine is armed, it has finished the stream. -/
def fired (s : St) (e : CtxErr) : St :=
  if s.watcher then finish { s with ctx := some e } (codeOfCtx e) else { s with ctx := some e }

theorem step_ctxFire {b : Bool} {s : St} (e : CtxErr) (hc : s.ctx = none) :
    step b s (.ctxFire e) = resume b (fuelOf (fired s e)) (fired s e) := by
  simp only [step, hc, fired]

section fields
variable (s : St) (e : CtxErr)
@[simp] theorem closeStream_pc (c : Nat) : (closeStream s c).pc = s.pc := by unfold closeStream; split <;> rfl
@[simp] theorem closeStream_ctx (c : Nat) : (closeStream s c).ctx = s.ctx := by unfold closeStream; split <;> rfl
@[simp] theorem closeStream_ready (c : Nat) : (closeStream s c).ready = s.ready := by unfold closeStream; split <;> rfl
@[simp] theorem closeStream_squota (c : Nat) : (closeStream s c).squota = s.squota := by unfold closeStream; split <;> rfl
@[simp] theorem closeStream_wq (c : Nat) : (closeStream s c).wq = s.wq := by unfold closeStream; split <;> rfl
@[simp] theorem closeStream_streaming (c : Nat) : (closeStream s c).streaming = s.streaming := by unfold closeStream; split <;> rfl
@[simp] theorem closeStream_gotMsg (c : Nat) : (closeStream s c).gotMsg = s.gotMsg := by unfold closeStream; split <;> rfl
@[simp] theorem closeStream_serverStreams (c : Nat) : (closeStream s c).serverStreams = s.serverStreams := by unfold closeStream; split <;> rfl
@[simp] theorem closeStream_sdone (c : Nat) : (closeStream s c).sdone = true := by
  unfold closeStream; split <;> simp_all
@[simp] theorem closeStream_hdr (c : Nat) (h : s.sdone = false) : (closeStream s c).hdr = true := by
  simp [closeStream, h]
theorem closeStream_buf (c : Nat) (h : s.sdone = false) : (closeStream s c).buf = s.buf ++ [.err c] := by
  simp [closeStream, h]
theorem closeStream_of_sdone (c : Nat) (h : s.sdone = true) : closeStream s c = s := by simp [closeStream, h]

@[simp] theorem fired_pc : (fired s e).pc = s.pc := by unfold fired finish; repeat' split <;> simp
@[simp] theorem fired_ctx : (fired s e).ctx = some e := by unfold fired finish; repeat' split <;> simp
@[simp] theorem fired_ready : (fired s e).ready = s.ready := by unfold fired finish; repeat' split <;> simp
@[simp] theorem fired_squota : (fired s e).squota = s.squota := by unfold fired finish; repeat' split <;> simp
@[simp] theorem fired_wq : (fired s e).wq = s.wq := by unfold fired finish; repeat' split <;> simp
@[simp] theorem fired_streaming : (fired s e).streaming = s.streaming := by unfold fired finish; repeat' split <;> simp
@[simp] theorem fired_gotMsg : (fired s e).gotMsg = s.gotMsg := by unfold fired finish; repeat' split <;> simp
@[simp] theorem fired_serverStreams : (fired s e).serverStreams = s.serverStreams := by unfold fired finish; repeat' split <;> simp
end fields


/-- Well-formedness: an invariant of every run from `St.init`. -/
structure WF (s : St) : Prop where
  hdr_buf : s.hdr = false → s.buf = [] ∧ s.sdone = false
  fin_ctx : s.ctx = none → s.finished = none
  sdone_buf : s.sdone = true → (∃ i ∈ s.buf, i.terminal = true) ∨ (∃ c, s.pc = .returned c)
  watch_s : s.streaming = true → s.created = true → s.watcher = true
  watch_u : s.watcher = true → s.streaming = true ∧ s.created = true
  created_pos : (s.pc = .parked .wquota ∨ s.pc = .parked .header ∨ s.pc = .parked .recv ∨ s.pc = .app) → s.created = true
  unary_wq : s.streaming = false → (s.pc = .parked .pick ∨ s.pc = .parked .newStream ∨ s.pc = .parked .wquota) → s.wq > 0
  app_streaming : s.pc = .app → s.streaming = true
  ctx_sdone : s.ctx ≠ none → s.streaming = true → s.created = true → s.sdone = true
  fresh : s.created = false → s.finished = none ∧ s.sdone = false ∧ s.hdr = false
  pre_created : (s.pc = .parked .pick ∨ s.pc = .parked .newStream) → s.created = false
  ss_streaming : s.serverStreams = true → s.streaming = true

theorem wf_init (st rd : Bool) (q sz : Nat) (ss : Bool) : WF (St.init st rd q sz ss) := by
  constructor <;> simp [St.init, defaultWriteQuota]
  intro h _; exact h

theorem wf_closeStream {s : St} (h : WF s) (c : Nat) (hc : s.ctx ≠ none) (hcr : s.created = true) : WF (closeStream s c) := by
  obtain ⟨h1, h2, h3, h4, h5, h6, h7, h8, h9, h10, h11, h12⟩ := h
  unfold closeStream
  split
  · exact ⟨h1, h2, h3, h4, h5, h6, h7, h8, h9, h10, h11, h12⟩
  · constructor <;> simp_all

theorem wf_recvClose {s : St} (h : WF s) (b : Bool) (hcr : s.created = true) : WF (recvClose b s) := by
  unfold recvClose
  split
  · split
    · exact wf_closeStream h _ (by simp_all) hcr
    · exact h
  · exact h

theorem wf_takeHead {s s' : St} (h : WF s) (hp : s.pc = .parked .recv) (hw : takeHead s = some s') : WF s' := by
  obtain ⟨h1, h2, h3, h4, h5, h6, h7, h8, h9, h10, h11, h12⟩ := h
  have hh : s.buf ≠ [] → s.hdr = true := by
    intro hb; cases hh : s.hdr with
    | true => rfl
    | false => exact absurd (h1 hh).1 hb
  unfold takeHead at hw
  split at hw
  · simp at hw
  · rename_i rest hb
    have := hh (by simp [hb])
    split at hw
    · simp at hw; subst hw; constructor <;> simp_all
    · split at hw <;> simp at hw <;> subst hw <;> constructor <;> simp_all
  · simp at hw; subst hw; constructor <;> simp_all
  · split at hw <;> simp at hw <;> subst hw <;> constructor <;> simp_all
  · rename_i rest hb
    have := hh (by simp [hb])
    simp at hw; subst hw; constructor <;> simp_all

theorem wf_wake {b : Bool} {s s' : St} (h : WF s) (hw : wake b s = some s') : WF s' := by
  obtain ⟨h1, h2, h3, h4, h5, h6, h7, h8, h9, h10, h11, h12⟩ := h
  unfold wake at hw
  split at hw
  · -- pick
    rename_i hp
    split at hw <;> (try split at hw) <;> simp at hw <;> subst hw <;> constructor <;> simp_all
  · -- newStream
    rename_i hp
    split at hw
    · split at hw <;> simp at hw <;> subst hw
      · unfold armWatcher finish closeStream
        split <;> (try split) <;> (try split) <;> constructor <;> simp_all
      · constructor <;> simp_all
    · split at hw <;> simp at hw
      subst hw; constructor <;> simp_all
  · -- wquota
    rename_i hp
    split at hw
    · split at hw <;> simp at hw <;> subst hw <;> constructor <;> simp_all
    · split at hw
      · split at hw <;> simp at hw <;> subst hw <;> constructor <;> simp_all
      · simp at hw
  · -- header
    rename_i hp
    have hsd : s.sdone = true → s.hdr = true := by
      intro hsd; cases hh : s.hdr with
      | true => rfl
      | false => have := (h1 hh).2; simp_all
    split at hw <;> (try split at hw) <;> simp at hw <;> subst hw
    all_goals (constructor <;> (try simp_all) <;> (try (unfold closeStream; split <;> simp_all)))
  · -- recv
    rename_i hp
    have hp' : (recvClose b s).pc = .parked .recv := by
      unfold recvClose; split <;> (try split) <;> simp [hp]
    exact wf_takeHead (wf_recvClose ⟨h1, h2, h3, h4, h5, h6, h7, h8, h9, h10, h11, h12⟩ b (h6 (by simp [hp]))) hp' hw
  · simp at hw
  · simp at hw

theorem wf_resume {b : Bool} : ∀ (fuel : Nat) {s : St}, WF s → WF (resume b fuel s)
  | 0, _, h => h
  | fuel + 1, s, h => by
    unfold resume
    split
    · exact h
    · rename_i s' hw; exact wf_resume fuel (wf_wake h hw)

theorem wf_finish {s : St} (h : WF s) (c : Nat) (hc : s.ctx ≠ none) (hcr : s.created = true) : WF (finish s c) := by
  unfold finish
  split
  · exact h
  · apply wf_closeStream _ _ (by simpa using hc) (by simpa using hcr)
    obtain ⟨h1, h2, h3, h4, h5, h6, h7, h8, h9, h10, h11, h12⟩ := h
    constructor <;> simp_all

theorem wf_fired {s : St} (h : WF s) (e : CtxErr) (hc : s.ctx = none) : WF (fired s e) := by
  obtain ⟨h1, h2, h3, h4, h5, h6, h7, h8, h9, h10, h11, h12⟩ := h
  unfold fired finish closeStream
  split <;> (try split) <;> (try split) <;> constructor <;> simp_all

theorem wf_step {b : Bool} {s : St} (h : WF s) (ev : Ev) : WF (step b s ev) := by
  cases ev with
  | ctxFire e =>
    cases hc : s.ctx with
    | some _ => simpa [step, hc] using h
    | none => rw [step_ctxFire e hc]; exact wf_resume _ (wf_fired h e hc)
  | pickerReady =>
    apply wf_resume; obtain ⟨h1, h2, h3, h4, h5, h6, h7, h8, h9, h10, h11, h12⟩ := h; constructor <;> simp_all
  | quotaAvail =>
    apply wf_resume; obtain ⟨h1, h2, h3, h4, h5, h6, h7, h8, h9, h10, h11, h12⟩ := h; constructor <;> simp_all
  | replenish n =>
    apply wf_resume; obtain ⟨h1, h2, h3, h4, h5, h6, h7, h8, h9, h10, h11, h12⟩ := h
    constructor <;> simp_all
    intro hs hp; have := h7 hs hp; omega
  | headers =>
    simp only [step]; split
    · exact h
    · apply wf_resume; obtain ⟨h1, h2, h3, h4, h5, h6, h7, h8, h9, h10, h11, h12⟩ := h; constructor <;> simp_all
  | message =>
    simp only [step]; split
    · exact h
    · apply wf_resume; obtain ⟨h1, h2, h3, h4, h5, h6, h7, h8, h9, h10, h11, h12⟩ := h; constructor <;> simp_all
  | partialMsg =>
    simp only [step]; split
    · exact h
    · apply wf_resume; obtain ⟨h1, h2, h3, h4, h5, h6, h7, h8, h9, h10, h11, h12⟩ := h; constructor <;> simp_all
  | trailers c =>
    simp only [step]; split
    · exact h
    · apply wf_resume; obtain ⟨h1, h2, h3, h4, h5, h6, h7, h8, h9, h10, h11, h12⟩ := h; constructor <;> simp_all
  | appSend sz =>
    simp only [step]; split
    · split
      · exact h
      · apply wf_resume; obtain ⟨h1, h2, h3, h4, h5, h6, h7, h8, h9, h10, h11, h12⟩ := h; constructor <;> simp_all
    · exact h
  | appRecv =>
    simp only [step]; split
    · apply wf_resume; obtain ⟨h1, h2, h3, h4, h5, h6, h7, h8, h9, h10, h11, h12⟩ := h
      constructor <;> simp_all <;> (try split) <;> simp_all
    · exact h

theorem wf_run (pref : Nat → Bool) : ∀ (es : List Ev) (k : Nat) {s : St}, WF s → WF (run pref k s es)
  | [], _, _, h => h
  | e :: es, k, _, h => wf_run pref es (k + 1) (wf_step h e)

theorem parked_pick {b b' : Bool} {s : St} (e : CtxErr) (hp : s.pc = .parked .pick) (hc : s.ctx = none)
    (hw : wake b s = none) : (step b' s (.ctxFire e)).pc = .returned (codeOfCtx e) := by
  have hr : s.ready = false := by
    cases hr : s.ready with
    | false => rfl
    | true => simp [wake, hp, hc, hr] at hw
  rw [step_ctxFire e hc]
  have hw2 : wake b' (fired s e) = some { fired s e with pc := .returned (codeOfCtx e) } := by
    simp [wake, hp, hr]
  rw [fuelOf, resume_some hw2, resume_none (wake_returned _ _ _ rfl)]

theorem parked_newStream {b b' : Bool} {s : St} (e : CtxErr) (hp : s.pc = .parked .newStream) (hc : s.ctx = none)
    (hw : wake b s = none) : (step b' s (.ctxFire e)).pc = .returned (codeOfCtx e) := by
  have hq : s.squota = 0 := by
    by_cases hq : s.squota > 0
    · simp [wake, hp, hq] at hw; split at hw <;> simp at hw
    · omega
  rw [step_ctxFire e hc]
  have hw2 : wake b' (fired s e) = some { fired s e with pc := .returned (codeOfCtx e) } := by
    simp [wake, hp, hq]
  rw [fuelOf, resume_some hw2, resume_none (wake_returned _ _ _ rfl)]


theorem fired_unary {s : St} (e : CtxErr) (h : WF s) (hs : s.streaming = false) : fired s e = { s with ctx := some e } := by
  have : s.watcher = false := by
    cases hw : s.watcher with
    | false => rfl
    | true => have := (h.watch_u hw).1; simp [hs] at this
  simp [fired, this]

theorem fired_streaming_created {s : St} (e : CtxErr) (h : WF s) (hs : s.streaming = true) (hcr : s.created = true)
    (hc : s.ctx = none) (hsd : s.sdone = false) :
    fired s e = { s with ctx := some e, finished := some (codeOfCtx e), sdone := true, rstSent := true, hdr := true,
                         buf := s.buf ++ [.err (codeOfCtx e)] } := by
  simp [fired, h.watch_s hs hcr, finish, h.fin_ctx hc, closeStream, hsd]

theorem parked_header {b b' : Bool} {s : St} (e : CtxErr) (h : WF s) (hp : s.pc = .parked .header) (hc : s.ctx = none)
    (hw : wake b s = none) : (step b' s (.ctxFire e)).pc = .returned (codeOfCtx e) := by
  have hh : s.hdr = false := by
    cases hh : s.hdr with
    | false => rfl
    | true => simp [wake, hp, hc, hh] at hw
  obtain ⟨hb, hsd⟩ := h.hdr_buf hh
  have hcr := h.created_pos (Or.inr (Or.inl hp))
  rw [step_ctxFire e hc]
  cases hs : s.streaming with
  | false =>
    rw [fired_unary e h hs, fuelOf]
    have w1 : wake b' { s with ctx := some e } =
        some { closeStream { s with ctx := some e } (codeOfCtx e) with pc := .parked .recv } := by
      simp [wake, hp, hh]
    rw [resume_some w1]
    have w2 : wake b' { closeStream { s with ctx := some e } (codeOfCtx e) with pc := .parked .recv } =
        some { closeStream { s with ctx := some e } (codeOfCtx e) with pc := .returned (codeOfCtx e) } := by
      simp [wake, recvClose, closeStream, hsd, hb, takeHead]
    rw [resume_some w2, resume_none (wake_returned _ _ _ rfl)]
  | true =>
    rw [fired_streaming_created e h hs hcr hc hsd, fuelOf]
    simp only [hb, List.nil_append, List.length_cons, List.length_nil]
    have w1 : ∀ (t : St), t.pc = .parked .header → t.ctx = some e → t.hdr = true → t.sdone = true →
        ∃ t', wake b' t = some t' ∧ t'.pc = .parked .recv ∧ t'.buf = t.buf ∧ t'.ctx = t.ctx ∧ t'.sdone = true
          ∧ t'.streaming = t.streaming ∧ t'.gotMsg = t.gotMsg := by
      intro t h1 h2 h3 h4
      cases b' <;> simp [wake, h1, h2, h3, closeStream, h4]
    obtain ⟨t', hw1, hpc, hbuf, hctx, hsd', hst, _⟩ := w1 { s with ctx := some e, finished := some (codeOfCtx e), sdone := true, rstSent := true, hdr := true, buf := [Item.err (codeOfCtx e)] } hp rfl rfl rfl
    rw [resume_some hw1]
    have w2 : wake b' t' = some { t' with pc := .returned (codeOfCtx e) } := by
      simp [wake, hpc, recvClose, hctx, closeStream, hsd', takeHead, hbuf]
    rw [resume_some w2, resume_none (wake_returned _ _ _ rfl)]

theorem takeHead_none {s : St} (h : takeHead s = none) : s.buf = [] := by
  unfold takeHead at h
  split at h
  · assumption
  · split at h <;> (try split at h) <;> simp at h
  · simp at h
  · split at h <;> simp at h
  · simp at h

theorem parked_recv {b b' : Bool} {s : St} (e : CtxErr) (h : WF s) (hp : s.pc = .parked .recv) (hc : s.ctx = none)
    (hw : wake b s = none) : (step b' s (.ctxFire e)).pc = .returned (codeOfCtx e) := by
  have hb : s.buf = [] := by
    have : takeHead s = none := by simpa [wake, hp, recvClose, hc] using hw
    exact takeHead_none this
  have hsd : s.sdone = false := by
    cases hsd : s.sdone with
    | false => rfl
    | true =>
      rcases h.sdone_buf hsd with ⟨c, hm⟩ | ⟨c, hr⟩
      · simp [hb] at hm
      · simp [hp] at hr
  have hcr := h.created_pos (Or.inr (Or.inr (Or.inl hp)))
  rw [step_ctxFire e hc]
  cases hs : s.streaming with
  | false =>
    rw [fired_unary e h hs, fuelOf]
    have w2 : wake b' { s with ctx := some e } =
        some { closeStream { s with ctx := some e } (codeOfCtx e) with pc := .returned (codeOfCtx e) } := by
      simp [wake, hp, recvClose, hb, closeStream, hsd, takeHead]
    rw [resume_some w2, resume_none (wake_returned _ _ _ rfl)]
  | true =>
    rw [fired_streaming_created e h hs hcr hc hsd, fuelOf]
    simp only [hb, List.nil_append, List.length_cons, List.length_nil]
    have w2 : wake b' { s with ctx := some e, finished := some (codeOfCtx e), sdone := true, rstSent := true, hdr := true, buf := [Item.err (codeOfCtx e)] } =
        some { s with ctx := some e, finished := some (codeOfCtx e), sdone := true, rstSent := true, hdr := true, buf := [Item.err (codeOfCtx e)], pc := .returned (codeOfCtx e) } := by
      cases b' <;> simp [wake, hp, recvClose, closeStream, takeHead]
    rw [resume_some w2, resume_none (wake_returned _ _ _ rfl)]

/-- Parked on write quota: only a streaming RPC can be; the watcher finishes the stream, SendMsg
    returns io.EOF (back in application code), the status is fixed to the context's code. -/
theorem parked_wquota {b b' : Bool} {s : St} (e : CtxErr) (h : WF s) (hp : s.pc = .parked .wquota) (hc : s.ctx = none)
    (hw : wake b s = none) :
    s.streaming = true ∧ (step b' s (.ctxFire e)).pc = .app ∧ (step b' s (.ctxFire e)).finished = some (codeOfCtx e)
      ∧ (step b' s (.ctxFire e)).sdone = true ∧ (step b' s (.ctxFire e)).ctx = some e
      ∧ (step b' s (.ctxFire e)).buf = s.buf ++ [.err (codeOfCtx e)] := by
  have hq : ¬ s.wq > 0 := by
    intro hq; simp [wake, hp, hq] at hw; split at hw <;> simp at hw
  have hsd : s.sdone = false := by
    cases hsd : s.sdone with
    | false => rfl
    | true => simp [wake, hp, hq, hsd] at hw; split at hw <;> simp at hw
  have hs : s.streaming = true := by
    cases hs : s.streaming with
    | true => rfl
    | false => exact absurd (h.unary_wq hs (Or.inr (Or.inr hp))) hq
  have hcr := h.created_pos (Or.inl hp)
  refine ⟨hs, ?_⟩
  rw [step_ctxFire e hc, fired_streaming_created e h hs hcr hc hsd, fuelOf]
  have w1 : wake b' { s with ctx := some e, finished := some (codeOfCtx e), sdone := true, rstSent := true, hdr := true, buf := s.buf ++ [Item.err (codeOfCtx e)] } =
      some { s with ctx := some e, finished := some (codeOfCtx e), sdone := true, rstSent := true, hdr := true, buf := s.buf ++ [Item.err (codeOfCtx e)], pc := .app } := by
    simp [wake, hp, hq, hs]
  simp only [List.length_append, List.length_cons, List.length_nil]
  rw [resume_some w1, resume_none (wake_app _ _ rfl)]
  simp

/-- Once the context is done the RPC goroutine can never be blocked: at every blocking point some
    select case is ready. -/
theorem ctx_done_not_blocked {b : Bool} {s : St} (h : WF s) (e : CtxErr) (hc : s.ctx = some e) (p : Pos)
    (hp : s.pc = .parked p) : ∃ s', wake b s = some s' := by
  cases p with
  | pick => cases hr : s.ready <;> cases b <;> simp [wake, hp, hc, hr]
  | newStream =>
    by_cases hq : s.squota > 0
    · cases hs : s.streaming <;> simp [wake, hp, hq, hs]
    · simp [wake, hp, hq, hc]
  | header => cases hh : s.hdr <;> cases b <;> simp [wake, hp, hc, hh]
  | wquota =>
    by_cases hq : s.wq > 0
    · cases hs : s.streaming <;> simp [wake, hp, hq, hs]
    · have hs : s.streaming = true := by
        cases hs : s.streaming with
        | true => rfl
        | false => exact absurd (h.unary_wq hs (Or.inr (Or.inr hp))) hq
      have hsd := h.ctx_sdone (by simp [hc]) hs (h.created_pos (Or.inl hp))
      simp [wake, hp, hq, hsd, hs]
  | recv =>
    have hne : (recvClose b s).buf ≠ [] := by
      unfold recvClose
      simp only [hc]
      cases hb : s.buf with
      | nil =>
        have hsd : s.sdone = false := by
          cases hsd : s.sdone with
          | false => rfl
          | true =>
            rcases h.sdone_buf hsd with ⟨i, hi, _⟩ | ⟨c, hr⟩
            · simp [hb] at hi
            · simp [hp] at hr
        simp [closeStream, hsd, hb]
      | cons i rest =>
        simp only [List.isEmpty_cons, Bool.false_or]
        split
        · unfold closeStream; split <;> simp [hb]
        · simp [hb]
    have hst : (recvClose b s).streaming = s.streaming := by
      unfold recvClose; split <;> (try split) <;> simp
    simp only [wake, hp]
    cases hbuf : (recvClose b s).buf with
    | nil => exact absurd hbuf hne
    | cons i rest =>
      unfold takeHead
      rw [hbuf]
      cases i with
      | msg => simp only; split <;> (try split) <;> exact ⟨_, rfl⟩
      | err c => exact ⟨_, rfl⟩
      | eof c => simp only; split <;> exact ⟨_, rfl⟩
      | part => exact ⟨_, rfl⟩

theorem step_appRecv {b : Bool} {s : St} (hp : s.pc = .app) (hh : s.hdr = true) :
    step b s .appRecv = resume b (s.buf.length + 7 + 1) { s with pc := .parked .recv } := by
  unfold step
  simp only [hp, hh, if_true]
  rfl

theorem recvClose_sdone {b : Bool} {s : St} (hsd : s.sdone = true) : recvClose b s = s := by
  unfold recvClose; split <;> (try split) <;> simp [closeStream, hsd]

/-- Draining: a finished streaming RPC hands the application the k messages that were buffered
    before the error, then the status. -/
theorem drain_returns (pref : Nat → Bool) (c : Nat) : ∀ (k n : Nat) (s : St), s.pc = .app → s.serverStreams = true →
    s.hdr = true → s.sdone = true → s.buf = List.replicate k Item.msg ++ [.err c] →
    (run pref n s (List.replicate (k + 1) .appRecv)).pc = .returned c
      ∧ (run pref n s (List.replicate (k + 1) .appRecv)).delivered = s.delivered + k := by
  intro k
  induction k with
  | zero =>
    intro n s hp hs hh hsd hb
    have hb' : s.buf = [.err c] := by simpa using hb
    have w : wake (pref n) { s with pc := .parked .recv } = some { s with pc := .returned c } := by
      simp only [wake]
      rw [recvClose_sdone (by simpa using hsd)]
      simp [takeHead, hb']
    simp only [List.replicate, run]
    rw [step_appRecv hp hh, resume_some w, resume_none (wake_returned _ _ _ rfl)]
    simp
  | succ k ih =>
    intro n s hp hs hh hsd hb
    have hb' : s.buf = .msg :: (List.replicate k Item.msg ++ [.err c]) := by simpa [List.replicate_succ] using hb
    have w : wake (pref n) { s with pc := .parked .recv } =
        some { s with buf := List.replicate k Item.msg ++ [.err c], delivered := s.delivered + 1, midMsg := false, pc := .app } := by
      simp only [wake]
      rw [recvClose_sdone (by simpa using hsd)]
      simp [takeHead, hb', hs]
    rw [List.replicate_succ, run, step_appRecv hp hh, resume_some w, resume_none (wake_app _ _ rfl)]
    have := ih (n + 1) { s with buf := List.replicate k Item.msg ++ [.err c], delivered := s.delivered + 1, midMsg := false, pc := .app }
      rfl hs hh hsd rfl
    constructor
    · exact this.1
    · rw [this.2]; simp; omega

/-- The stream has been released on the client: `s.done` closed, RST_STREAM(CANCEL) on the wire, the
    status fixed to `c`. -/
def Released (c : Nat) (s : St) : Prop := s.sdone = true ∧ s.rstSent = true ∧ s.finished = some c

theorem released_takeHead {c : Nat} {s s' : St} (h : Released c s) (hw : takeHead s = some s') : Released c s' := by
  obtain ⟨h1, h2, h3⟩ := h
  unfold takeHead at hw
  split at hw
  · simp at hw
  · split at hw
    · simp at hw; subst hw; exact ⟨h1, h2, h3⟩
    · split at hw <;> simp at hw <;> subst hw <;> exact ⟨h1, h2, h3⟩
  · simp at hw; subst hw; exact ⟨h1, h2, h3⟩
  · split at hw <;> simp at hw <;> subst hw <;> exact ⟨h1, h2, h3⟩
  · simp at hw; subst hw; exact ⟨h1, h2, h3⟩

theorem released_wake {b : Bool} {c : Nat} {s s' : St} (h : Released c s) (hw : wake b s = some s') : Released c s' := by
  obtain ⟨h1, h2, h3⟩ := h
  have hcs : ∀ k, closeStream s k = s := fun k => closeStream_of_sdone s k h1
  have hrc : recvClose b s = s := recvClose_sdone h1
  unfold wake at hw
  simp only [hcs, hrc] at hw
  split at hw
  all_goals (repeat' (split at hw))
  all_goals first
    | (simp at hw; done)
    | exact released_takeHead ⟨h1, h2, h3⟩ hw
    | (simp at hw; subst hw
       first
         | exact ⟨h1, h2, h3⟩
         | (simp only [armWatcher, finish, Released]; split <;> simp [h1, h2, h3]))

theorem released_resume {b : Bool} {c : Nat} : ∀ (fuel : Nat) {s : St}, Released c s → Released c (resume b fuel s)
  | 0, _, h => h
  | fuel + 1, s, h => by
    unfold resume
    split
    · exact h
    · rename_i s' hw; exact released_resume fuel (released_wake h hw)

/-- Wherever the goroutine is — in application code between two calls, or parked in any select — the
    watcher of a stream created through NewStream releases it when the context is done. -/
theorem ctxFire_releases {b : Bool} {s : St} (e : CtxErr) (h : WF s) (hs : s.streaming = true) (hcr : s.created = true)
    (hc : s.ctx = none) (hsd : s.sdone = false) : Released (codeOfCtx e) (step b s (.ctxFire e)) := by
  rw [step_ctxFire e hc]
  apply released_resume
  rw [fired_streaming_created e h hs hcr hc hsd]
  exact ⟨rfl, rfl, rfl⟩

end GrpcProofs.Lemmas.Deadline
