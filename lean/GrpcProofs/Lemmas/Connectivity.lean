import GrpcModel.Model.Connectivity
/-!
Helper lemmas for C30, part B (one addrConn): the inductive invariant of `acStep`.
-/
namespace GrpcProofs.Lemmas.Connectivity
open GrpcModel.Connectivity

/-- What a connect goroutine with a live context may assume about `ac.state` / `ac.transport`. -/
def ClassOk (st : ConnState) (tr : Option Nat) : GPc → Prop
  | .dialing _ => st = .connecting ∧ tr = none
  | .created _ => st = .connecting ∧ tr = none
  | .failedAll => st = .connecting ∧ tr = none
  | .backoff => st = .transientFailure ∧ tr = none
  | .afterBackoff => st = .transientFailure ∧ tr = none
  | .done => True

def TrOk (a : AC) (st : ConnState) (tr : Option Nat) : Prop :=
  ∀ t, tr = some t → st = .ready ∨ (a.healthEnabled = true ∧ (st = .connecting ∨ st = .transientFailure))

structure AcInv (a : AC) : Prop where
  shutTorn : a.state = .shutdown ↔ a.tornDown = true
  liveG : ∀ g x, a.gors g = some x → a.ctxLive x.ctx = true → ClassOk a.state a.transport x.pc
  uniq : ∀ g1 g2 x1 x2, a.gors g1 = some x1 → a.gors g2 = some x2 → a.ctxLive x1.ctx = true →
    a.ctxLive x2.ctx = true → x1.pc ≠ .done → x2.pc ≠ .done → g1 = g2
  trState : TrOk a a.state a.transport
  tornTr : a.tornDown = true → a.transport = none
  trHealth : ∀ t tr, a.trs t = some tr → tr.health = true → a.healthEnabled = true
  ctxLe : ∀ g x, a.gors g = some x → x.ctx ≤ a.ctxGen

theorem setState_fst (a : AC) (s : ConnState) : (a.setState s).1 = { a with state := s } := by
  unfold AC.setState
  split
  · rename_i h; cases a; simp_all
  · rfl

theorem setState_snd (a : AC) (s : ConnState) :
    (a.setState s).2 = if a.state = s then [] else [(a.state, s)] := by
  unfold AC.setState
  split <;> simp_all

theorem inv_init (n : Nat) (h : Bool) : AcInv (AC.init n h) := by
  refine ⟨by simp [AC.init], ?_, ?_, ?_, by simp [AC.init], ?_, ?_⟩
  · intro g x hg; simp [AC.init] at hg
  · intro g1 g2 x1 x2 hg; simp [AC.init] at hg
  · intro t ht; simp [AC.init] at ht
  · intro t tr ht; simp [AC.init] at ht
  · intro g x hg; simp [AC.init] at hg

/-- a goroutine moves without touching the shared fields -/
theorem inv_setGor {a : AC} {g : Nat} {x x' : Gor} (h : AcInv a) (hg : a.gors g = some x) (hctx : x'.ctx = x.ctx)
    (hcls : a.ctxLive x.ctx = true → ClassOk a.state a.transport x'.pc) (hdone : x.pc = .done → x'.pc = .done) :
    AcInv (a.setGor g x') := by
  refine ⟨h.shutTorn, ?_, ?_, h.trState, h.tornTr, h.trHealth, ?_⟩
  · intro i y hy hl
    simp only [AC.setGor] at hy
    split at hy
    · simp at hy; subst hy
      have : a.ctxLive x.ctx = true := by rw [← hctx]; exact hl
      exact hcls this
    · exact h.liveG i y hy hl
  · intro g1 g2 x1 x2 h1 h2 l1 l2 n1 n2
    simp only [AC.setGor] at h1 h2
    have l1' : (a.ctxLive x1.ctx) = true := l1
    have l2' : (a.ctxLive x2.ctx) = true := l2
    by_cases e1 : g1 = g <;> by_cases e2 : g2 = g
    · rw [e1, e2]
    · simp [e1] at h1; simp [e2] at h2; subst h1
      rw [e1]
      apply h.uniq g g2 x x2 hg h2 (by rw [← hctx]; exact l1') l2' (fun hd => n1 (hdone hd)) n2
    · simp [e1] at h1; simp [e2] at h2; subst h2
      rw [e2]
      apply h.uniq g1 g x1 x h1 hg l1' (by rw [← hctx]; exact l2') n1 (fun hd => n2 (hdone hd))
    · simp [e1] at h1; simp [e2] at h2
      exact h.uniq g1 g2 x1 x2 h1 h2 l1' l2' n1 n2
  · intro i y hy
    simp only [AC.setGor] at hy
    split at hy
    · simp at hy; subst hy; rw [hctx]; exact h.ctxLe g x hg
    · exact h.ctxLe i y hy

/-- a transport record changes -/
theorem inv_setTr {a : AC} {t : Nat} {tr : Tr} (h : AcInv a) (hh : tr.health = true → a.healthEnabled = true) :
    AcInv (a.setTr t tr) := by
  refine ⟨h.shutTorn, h.liveG, h.uniq, h.trState, h.tornTr, ?_, h.ctxLe⟩
  intro i y hy hhy
  simp only [AC.setTr] at hy
  split at hy
  · simp at hy; subst hy; exact hh hhy
  · exact h.trHealth i y hy hhy

theorem inv_nextT {a : AC} (h : AcInv a) (n : Nat) : AcInv { a with nextT := n } :=
  ⟨h.shutTorn, h.liveG, h.uniq, h.trState, h.tornTr, h.trHealth, h.ctxLe⟩

theorem inv_nAddrs {a : AC} (h : AcInv a) (n : Nat) : AcInv { a with nAddrs := n } :=
  ⟨h.shutTorn, h.liveG, h.uniq, h.trState, h.tornTr, h.trHealth, h.ctxLe⟩

/-- the unique live goroutine g takes a critical section that sets state and transport -/
theorem inv_gorState {a : AC} {g : Nat} {x x' : Gor} {s' : ConnState} {tr' : Option Nat} (h : AcInv a)
    (hg : a.gors g = some x) (hctx : x'.ctx = x.ctx) (hlive : a.ctxLive x.ctx = true) (hnd : x.pc ≠ .done)
    (hcls : ClassOk s' tr' x'.pc) (hs : s' ≠ .shutdown) (htr : TrOk a s' tr') :
    AcInv { (a.setGor g x') with state := s', transport := tr' } := by
  have hnt : a.tornDown = false := by
    simp [AC.ctxLive] at hlive; exact hlive.2
  refine ⟨?_, ?_, ?_, ?_, ?_, h.trHealth, ?_⟩
  · simp [AC.setGor, hnt, hs]
  · intro i y hy hl
    have hl' : a.ctxLive y.ctx = true := hl
    simp only [AC.setGor] at hy
    split at hy
    · simp at hy; subst hy; exact hcls
    · rename_i hne
      by_cases hd : y.pc = .done
      · rw [hd]; trivial
      · exact absurd (h.uniq i g y x hy hg hl' hlive hd hnd) hne
  · intro g1 g2 x1 x2 h1 h2 l1 l2 n1 n2
    have l1' : a.ctxLive x1.ctx = true := l1
    have l2' : a.ctxLive x2.ctx = true := l2
    simp only [AC.setGor] at h1 h2
    by_cases e1 : g1 = g <;> by_cases e2 : g2 = g
    · rw [e1, e2]
    · simp [e2] at h2
      exact absurd (h.uniq g2 g x2 x h2 hg l2' hlive n2 hnd) e2
    · simp [e1] at h1
      exact absurd (h.uniq g1 g x1 x h1 hg l1' hlive n1 hnd) e1
    · simp [e1] at h1; simp [e2] at h2
      exact h.uniq g1 g2 x1 x2 h1 h2 l1' l2' n1 n2
  · exact htr
  · intro ht; simp [AC.setGor, hnt] at ht
  · intro i y hy
    simp only [AC.setGor] at hy
    split at hy
    · simp at hy; subst hy; rw [hctx]; exact h.ctxLe g x hg
    · exact h.ctxLe i y hy

/-- no live unfinished goroutine exists: any non-shutdown state with a consistent transport is fine -/
theorem inv_noLive {a : AC} {s' : ConnState} {tr' : Option Nat} (h : AcInv a)
    (hno : ∀ g x, a.gors g = some x → a.ctxLive x.ctx = true → x.pc = .done)
    (hnt : a.tornDown = false) (hs : s' ≠ .shutdown) (htr : TrOk a s' tr') :
    AcInv { a with state := s', transport := tr' } := by
  refine ⟨by simp [hnt, hs], ?_, ?_, htr, by simp [hnt], h.trHealth, h.ctxLe⟩
  · intro g x hg hl
    rw [hno g x hg hl]; trivial
  · intro g1 g2 x1 x2 h1 h2 l1 l2 n1 n2
    exact absurd (hno g1 x1 h1 l1) n1

/-- a live unfinished goroutine forces state ∈ {CONNECTING, TRANSIENT_FAILURE} and no transport -/
theorem live_class {a : AC} (h : AcInv a) {g : Nat} {x : Gor} (hg : a.gors g = some x) (hl : a.ctxLive x.ctx = true)
    (hnd : x.pc ≠ .done) : (a.state = .connecting ∨ a.state = .transientFailure) ∧ a.transport = none := by
  have := h.liveG g x hg hl
  cases hp : x.pc <;> simp [hp, ClassOk] at this hnd <;> simp [this]

theorem no_live_of_state {a : AC} (h : AcInv a) (hs : a.state ≠ .connecting ∧ a.state ≠ .transientFailure) :
    ∀ g x, a.gors g = some x → a.ctxLive x.ctx = true → x.pc = .done := by
  intro g x hg hl
  by_cases hd : x.pc = .done
  · exact hd
  · have := (live_class h hg hl hd).1
    rcases this with h1 | h1
    · exact absurd h1 hs.1
    · exact absurd h1 hs.2

theorem no_live_of_transport {a : AC} (h : AcInv a) (ht : a.transport ≠ none) :
    ∀ g x, a.gors g = some x → a.ctxLive x.ctx = true → x.pc = .done := by
  intro g x hg hl
  by_cases hd : x.pc = .done
  · exact hd
  · exact absurd (live_class h hg hl hd).2 ht

theorem not_torn_of_live {a : AC} {c : Nat} (h : a.ctxLive c = true) : a.tornDown = false := by
  simp [AC.ctxLive] at h; exact h.2

/-- a new connect goroutine is spawned on the current context -/
theorem inv_spawn {a : AC} (h : AcInv a) (hno : ∀ g x, a.gors g = some x → a.ctxLive x.ctx = true → x.pc = .done)
    (hs : a.state = .connecting) (htr : a.transport = none) (i n k : Nat) :
    AcInv (({ a with nextG := n }).setGor i { ctx := a.ctxGen, pc := .dialing k }) := by
  refine ⟨h.shutTorn, ?_, ?_, h.trState, h.tornTr, h.trHealth, ?_⟩
  · intro j y hy hl
    have hl' : a.ctxLive y.ctx = true := hl
    simp only [AC.setGor] at hy
    split at hy
    · simp at hy; subst hy; exact ⟨hs, htr⟩
    · rw [hno j y hy hl']; trivial
  · intro g1 g2 x1 x2 h1 h2 l1 l2 n1 n2
    have l1' : a.ctxLive x1.ctx = true := l1
    have l2' : a.ctxLive x2.ctx = true := l2
    simp only [AC.setGor] at h1 h2
    by_cases e1 : g1 = i <;> by_cases e2 : g2 = i
    · rw [e1, e2]
    · simp [e2] at h2; exact absurd (hno g2 x2 h2 l2') n2
    · simp [e1] at h1; exact absurd (hno g1 x1 h1 l1') n1
    · simp [e1] at h1; exact absurd (hno g1 x1 h1 l1') n1
  · intro j y hy
    simp only [AC.setGor] at hy
    split at hy
    · simp at hy; subst hy; exact Nat.le_refl _
    · exact h.ctxLe j y hy

theorem inv_startConnect {a : AC} (h : AcInv a) (hno : ∀ g x, a.gors g = some x → a.ctxLive x.ctx = true → x.pc = .done)
    (hnt : a.tornDown = false) (htr : a.transport = none) : AcInv a.startConnect.1 := by
  unfold AC.startConnect
  have hl : a.ctxLive a.ctxGen = true := by simp [AC.ctxLive, hnt]
  simp only [hl, Bool.not_true, Bool.false_eq_true, if_false]
  have h1 : AcInv { a with state := ConnState.connecting, transport := none } :=
    inv_noLive h hno hnt (by decide) (by intro t ht; simp at ht)
  have h1' : AcInv (a.setState .connecting).1 := by
    rw [setState_fst]
    have : ({ a with state := ConnState.connecting } : AC) = { a with state := ConnState.connecting, transport := none } := by
      cases a; simp_all
    rw [this]; exact h1
  have hno' : ∀ g x, (a.setState .connecting).1.gors g = some x → (a.setState .connecting).1.ctxLive x.ctx = true → x.pc = .done := by
    rw [setState_fst]; exact hno
  exact inv_spawn h1' hno' (by rw [setState_fst]) (by rw [setState_fst]; exact htr) _ _ _

/-- updateAddrs: the old context is cancelled, a fresh one installed, the transport dropped -/
theorem inv_bumpCtx {a : AC} (h : AcInv a) (_hnt : a.tornDown = false) :
    AcInv { a with ctxGen := a.ctxGen + 1, transport := none } ∧
    ∀ g x, a.gors g = some x → ({ a with ctxGen := a.ctxGen + 1, transport := none } : AC).ctxLive x.ctx = true → x.pc = .done := by
  have dead : ∀ g x, a.gors g = some x → ({ a with ctxGen := a.ctxGen + 1, transport := none } : AC).ctxLive x.ctx = true → False := by
    intro g x hg hl
    have := h.ctxLe g x hg
    simp [AC.ctxLive] at hl
    omega
  refine ⟨⟨h.shutTorn, ?_, ?_, by intro t ht; simp at ht, by simp, h.trHealth, ?_⟩, fun g x hg hl => (dead g x hg hl).elim⟩
  · intro g x hg hl; exact (dead g x hg hl).elim
  · intro g1 g2 x1 x2 h1 h2 l1; exact (dead g1 x1 h1 l1).elim
  · intro g x hg; have := h.ctxLe g x hg; simp; omega

theorem acInv_step {a : AC} (act : AcAct) (h : AcInv a) : AcInv (acStep a act).1 := by
  cases act with
  | connect =>
    simp only [acStep]
    split
    · exact h
    · split
      · exact h
      · rename_i hns hi
        simp at hi
        have hnt : a.tornDown = false := by
          cases ht : a.tornDown with
          | false => rfl
          | true => exact absurd (h.shutTorn.mpr ht) hns
        have htr : a.transport = none := by
          cases htt : a.transport with
          | none => rfl
          | some t =>
            have := h.trState t htt
            rw [hi] at this
            simp at this
        exact inv_startConnect h (no_live_of_state h (by rw [hi]; simp)) hnt htr
  | dialFail g =>
    simp only [acStep]
    split
    · rename_i x hg
      split
      · rename_i k hpc
        refine inv_setGor (x' := { x with pc := if k = 0 then GPc.failedAll else GPc.dialing k }) h hg rfl ?_ ?_
        · intro hl
          have := h.liveG g x hg hl
          rw [hpc] at this
          show ClassOk _ _ (if k = 0 then GPc.failedAll else GPc.dialing k)
          split <;> exact this
        · intro hd; rw [hpc] at hd; simp at hd
      · exact h
    · exact h
  | dialNone g =>
    simp only [acStep]
    split
    · rename_i x hg
      split
      · exact inv_setGor (x' := { x with pc := GPc.done }) h hg rfl (fun _ => trivial) (fun _ => rfl)
      · exact h
    · exact h
  | dialOk g =>
    simp only [acStep]
    split
    · rename_i x hg
      split
      · rename_i k hpc
        have h1 : AcInv (({ a with nextT := a.nextT + 1 }).setTr a.nextT { ctx := x.ctx, hctxCancelled := false, closed := false, health := false }) :=
          inv_setTr (inv_nextT h _) (by simp)
        refine inv_setGor (x' := { x with pc := GPc.created a.nextT }) h1 hg rfl ?_ ?_
        · intro hl
          have := h.liveG g x hg hl
          rw [hpc] at this
          exact this
        · intro hd; rw [hpc] at hd; simp at hd
      · exact h
    · exact h
  | lockCreated g =>
    simp only [acStep]
    split
    · rename_i x hg
      split
      · rename_i t hpc
        split
        · rename_i tr htr
          have hnd : x.pc ≠ .done := by rw [hpc]; simp
          have hth : tr.health = true → a.healthEnabled = true := h.trHealth t tr htr
          by_cases hl : a.ctxLive x.ctx = true
          · have hc := live_class h hg hl hnd
            have hconn : a.state = .connecting := by
              have := h.liveG g x hg hl; rw [hpc] at this; exact this.1
            simp only [hl, Bool.not_true, Bool.false_eq_true, if_false]
            split
            · rw [setState_fst]
              exact inv_gorState (x' := { x with pc := GPc.done }) (s' := .idle) (tr' := a.transport) h hg rfl hl hnd trivial (by decide)
                (by intro t' ht'; rw [hc.2] at ht'; simp at ht')
            · split
              · rename_i hh
                refine inv_setTr (a := { (a.setGor g { x with pc := GPc.done }) with transport := some t }) ?_ (fun _ => hh)
                exact inv_gorState (x' := { x with pc := GPc.done }) (s' := a.state) (tr' := some t) h hg rfl hl hnd trivial
                  (by rw [hconn]; decide) (by intro t' _; right; exact ⟨hh, Or.inl hconn⟩)
              · rw [setState_fst]
                exact inv_gorState (x' := { x with pc := GPc.done }) (s' := .ready) (tr' := some t) h hg rfl hl hnd trivial (by decide)
                  (by intro t' _; left; rfl)
          · simp only [hl, Bool.not_false, if_true]
            simp at hl
            refine inv_setTr (a := a.setGor g { x with pc := GPc.done }) ?_ hth
            exact inv_setGor (x' := { x with pc := GPc.done }) h hg rfl (fun hl' => by rw [hl] at hl'; simp at hl') (fun hd => absurd hd hnd)
        · exact h
      · exact h
    · exact h
  | lockFailed g =>
    simp only [acStep]
    split
    · rename_i x hg
      split
      · rename_i hpc
        have hnd : x.pc ≠ .done := by rw [hpc]; simp
        by_cases hl : a.ctxLive x.ctx = true
        · have hc := live_class h hg hl hnd
          simp only [hl, Bool.not_true, Bool.false_eq_true, if_false]
          rw [setState_fst]
          exact inv_gorState (x' := { x with pc := GPc.backoff }) (s' := .transientFailure) (tr' := a.transport) h hg rfl hl hnd ⟨rfl, hc.2⟩ (by decide)
            (by intro t' ht'; rw [hc.2] at ht'; simp at ht')
        · simp only [hl, Bool.not_false, if_true]
          simp at hl
          exact inv_setGor (x' := { x with pc := GPc.done }) h hg rfl (fun hl' => by rw [hl] at hl'; simp at hl') (fun hd => absurd hd hnd)
      · exact h
    · exact h
  | backoffEnd g =>
    simp only [acStep]
    split
    · rename_i x hg
      split
      · rename_i hpc
        refine inv_setGor (x' := { x with pc := GPc.afterBackoff }) h hg rfl ?_ ?_
        · intro hl
          have := h.liveG g x hg hl
          rw [hpc] at this
          exact this
        · intro hd; rw [hpc] at hd; simp at hd
      · exact h
    · exact h
  | backoffCtxDone g =>
    simp only [acStep]
    split
    · rename_i x hg
      split
      · split
        · exact inv_setGor (x' := { x with pc := GPc.done }) h hg rfl (fun _ => trivial) (fun _ => rfl)
        · exact h
      · exact h
    · exact h
  | lockAfterBackoff g =>
    simp only [acStep]
    split
    · rename_i x hg
      split
      · rename_i hpc
        have hnd : x.pc ≠ .done := by rw [hpc]; simp
        split
        · rename_i hl
          have hc := live_class h hg hl hnd
          rw [setState_fst]
          exact inv_gorState (x' := { x with pc := GPc.done }) (s' := .idle) (tr' := a.transport) h hg rfl hl hnd trivial (by decide)
            (by intro t' ht'; rw [hc.2] at ht'; simp at ht')
        · exact inv_setGor (x' := { x with pc := GPc.done }) h hg rfl (fun _ => trivial) (fun _ => rfl)
      · exact h
    · exact h
  | onClose t =>
    simp only [acStep]
    split
    · rename_i tr htr
      have hth : tr.health = true → a.healthEnabled = true := h.trHealth t tr htr
      split
      · exact h
      · split
        · exact inv_setTr h hth
        · rename_i hl
          simp at hl
          split
          · exact inv_setTr h hth
          · rename_i hne
            rw [setState_fst]
            have h1 : AcInv (a.setTr t { tr with closed := true, hctxCancelled := true }) := inv_setTr h hth
            have := inv_noLive (a := a.setTr t { tr with closed := true, hctxCancelled := true }) (s' := .idle) (tr' := none) h1
              (no_live_of_transport h1 hne) (not_torn_of_live hl) (by decide) (by intro t' ht'; simp at ht')
            exact this
    · exact h
  | tearDown =>
    simp only [acStep]
    split
    · exact h
    · rw [setState_fst]
      refine ⟨by simp, ?_, ?_, by intro t ht; simp at ht, by simp, h.trHealth, h.ctxLe⟩
      · intro g x hg hl; simp [AC.ctxLive] at hl
      · intro g1 g2 x1 x2 h1 h2 l1; simp [AC.ctxLive] at l1
  | updateAddrs n still =>
    simp only [acStep]
    split
    · exact inv_nAddrs h n
    · rename_i hst
      split
      · exact inv_nAddrs h n
      · have hns : a.state ≠ .shutdown := fun hh => hst (Or.inl hh)
        have hnt : a.tornDown = false := by
          cases ht : a.tornDown with
          | false => rfl
          | true => exact absurd (h.shutTorn.mpr ht) hns
        have h0 : AcInv { a with nAddrs := n } := inv_nAddrs h n
        obtain ⟨h1, hno1⟩ := inv_bumpCtx h0 hnt
        by_cases hn : n = 0
        · simp only [hn, if_true]
          have h2 : AcInv ({ ({ a with nAddrs := 0 } : AC) with ctxGen := a.ctxGen + 1, transport := none }.setState ConnState.idle).1 := by
            rw [setState_fst]
            rw [hn] at h1 hno1
            exact inv_noLive (s' := .idle) (tr' := none) h1 hno1 hnt (by decide) (by intro t ht; simp at ht)
          apply inv_startConnect h2
          · rw [setState_fst]; rw [hn] at hno1; exact hno1
          · rw [setState_fst]; exact hnt
          · rw [setState_fst]
        · simp only [hn, if_false]
          exact inv_startConnect h1 hno1 hnt rfl
  | healthSet t s =>
    simp only [acStep]
    split
    · rename_i tr htr
      split
      · rename_i hc
        obtain ⟨hh, htt, hs⟩ := hc
        rw [setState_fst]
        have hne : a.transport ≠ none := by rw [htt]; simp
        have hnt : a.tornDown = false := by
          cases ht : a.tornDown with
          | false => rfl
          | true => exact absurd (h.tornTr ht) hne
        have := inv_noLive (s' := s) (tr' := a.transport) h (no_live_of_transport h hne) hnt
          (by rcases hs with hs | hs | hs <;> rw [hs] <;> decide)
          (by
            intro t' _
            rcases hs with hs | hs | hs
            · right; exact ⟨h.trHealth t tr htr hh, Or.inl hs⟩
            · left; exact hs
            · right; exact ⟨h.trHealth t tr htr hh, Or.inr hs⟩)
        exact this
      · exact h
    · exact h

/-- sub-channel states reachable by any sequence of actions -/
inductive AcReach (n : Nat) (health : Bool) : AC → Prop
  | init : AcReach n health (AC.init n health)
  | step {a : AC} (x : AcAct) : AcReach n health a → AcReach n health (acStep a x).1

theorem reach_inv {n : Nat} {health : Bool} {a : AC} (h : AcReach n health a) : AcInv a := by
  induction h with
  | init => exact inv_init n health
  | step x _ ih => exact acInv_step x ih

theorem reach_health {n : Nat} {health : Bool} {a : AC} (h : AcReach n health a) : a.healthEnabled = health := by
  induction h with
  | init => rfl
  | @step a x _ ih =>
    have : ∀ (a : AC) (x : AcAct), (acStep a x).1.healthEnabled = a.healthEnabled := by
      intro a x
      cases x <;> simp only [acStep, AC.startConnect] <;> (repeat' split) <;>
        simp [AC.setGor, AC.setTr, setState_fst]
    rw [this, ih]

/-! ### where state changes are reported -/

theorem mem_setState {a : AC} {s o n : ConnState} (h : (o, n) ∈ (a.setState s).2) : o = a.state ∧ n = s ∧ a.state ≠ s := by
  rw [setState_snd] at h
  split at h
  · simp at h
  · rename_i hne
    simp at h
    exact ⟨h.1, h.2, hne⟩

theorem mem_startConnect {a : AC} {o n : ConnState} (h : (o, n) ∈ a.startConnect.2) :
    o = a.state ∧ n = .connecting ∧ a.state ≠ .connecting ∧ a.tornDown = false := by
  unfold AC.startConnect at h
  split at h
  · simp at h
  · rename_i hl
    simp [AC.ctxLive] at hl
    have := mem_setState h
    exact ⟨this.1, this.2.1, this.2.2, hl⟩

/-- The site of a reported change. -/
inductive Site (a : AC) (o n : ConnState) : AcAct → Prop
  | connect : a.state = .idle → o = .idle → n = .connecting → Site a o n .connect
  | created (g : Nat) (x : Gor) (t : Nat) (tr : Tr) : a.gors g = some x → x.pc = .created t → a.trs t = some tr →
      a.ctxLive x.ctx = true → o = a.state →
      ((tr.hctxCancelled = true ∧ n = .idle) ∨ (tr.hctxCancelled = false ∧ a.healthEnabled = false ∧ n = .ready)) →
      Site a o n (.lockCreated g)
  | failed (g : Nat) (x : Gor) : a.gors g = some x → x.pc = .failedAll → a.ctxLive x.ctx = true → o = a.state →
      n = .transientFailure → Site a o n (.lockFailed g)
  | afterBackoff (g : Nat) (x : Gor) : a.gors g = some x → x.pc = .afterBackoff → a.ctxLive x.ctx = true → o = a.state →
      n = .idle → Site a o n (.lockAfterBackoff g)
  | onClose (t : Nat) (tr : Tr) : a.trs t = some tr → tr.closed = false → a.ctxLive tr.ctx = true → a.transport ≠ none →
      o = a.state → n = .idle → Site a o n (.onClose t)
  | tearDown : a.state ≠ .shutdown → o = a.state → n = .shutdown → Site a o n .tearDown
  | updateAddrs (k : Nat) (still : Bool) : (a.state = .connecting ∨ a.state = .ready) →
      ((o = a.state ∧ n = .idle) ∨ ((o = a.state ∨ o = .idle) ∧ n = .connecting)) → Site a o n (.updateAddrs k still)
  | health (t : Nat) (s : ConnState) (tr : Tr) : a.trs t = some tr → tr.health = true → a.transport = some t →
      (s = .connecting ∨ s = .ready ∨ s = .transientFailure) → o = a.state → n = s → Site a o n (.healthSet t s)

theorem change_site {a : AC} {act : AcAct} {o n : ConnState} (hm : (o, n) ∈ (acStep a act).2) :
    o ≠ n ∧ Site a o n act := by
  cases act with
  | connect =>
    simp only [acStep] at hm
    split at hm
    · simp at hm
    · split at hm
      · simp at hm
      · rename_i hi
        simp at hi
        have := mem_startConnect hm
        refine ⟨by rw [this.1, this.2.1]; exact this.2.2.1, Site.connect hi (by rw [this.1, hi]) this.2.1⟩
  | dialFail g =>
    simp only [acStep] at hm
    split at hm
    · split at hm <;> simp at hm
    · simp at hm
  | dialNone g =>
    simp only [acStep] at hm
    split at hm
    · split at hm <;> simp at hm
    · simp at hm
  | dialOk g =>
    simp only [acStep] at hm
    split at hm
    · split at hm <;> simp at hm
    · simp at hm
  | lockCreated g =>
    simp only [acStep] at hm
    split at hm
    · rename_i x hg
      split at hm
      · rename_i t hpc
        split at hm
        · rename_i tr htr
          split at hm
          · simp at hm
          · rename_i hl
            simp at hl
            split at hm
            · rename_i hh
              have := mem_setState hm
              exact ⟨by rw [this.1, this.2.1]; exact this.2.2,
                Site.created g x t tr hg hpc htr hl this.1 (Or.inl ⟨hh, this.2.1⟩)⟩
            · rename_i hh
              simp at hh
              split at hm
              · simp at hm
              · rename_i hhe
                simp at hhe
                have := mem_setState hm
                exact ⟨by rw [this.1, this.2.1]; exact this.2.2,
                  Site.created g x t tr hg hpc htr hl this.1 (Or.inr ⟨hh, hhe, this.2.1⟩)⟩
        · simp at hm
      · simp at hm
    · simp at hm
  | lockFailed g =>
    simp only [acStep] at hm
    split at hm
    · rename_i x hg
      split at hm
      · rename_i hpc
        split at hm
        · simp at hm
        · rename_i hl
          simp at hl
          have := mem_setState hm
          exact ⟨by rw [this.1, this.2.1]; exact this.2.2, Site.failed g x hg hpc hl this.1 this.2.1⟩
      · simp at hm
    · simp at hm
  | backoffEnd g =>
    simp only [acStep] at hm
    split at hm
    · split at hm <;> simp at hm
    · simp at hm
  | backoffCtxDone g =>
    simp only [acStep] at hm
    split at hm
    · split at hm
      · split at hm <;> simp at hm
      · simp at hm
    · simp at hm
  | lockAfterBackoff g =>
    simp only [acStep] at hm
    split at hm
    · rename_i x hg
      split at hm
      · rename_i hpc
        split at hm
        · rename_i hl
          have := mem_setState hm
          exact ⟨by rw [this.1, this.2.1]; exact this.2.2, Site.afterBackoff g x hg hpc hl this.1 this.2.1⟩
        · simp at hm
      · simp at hm
    · simp at hm
  | onClose t =>
    simp only [acStep] at hm
    split at hm
    · rename_i tr htr
      split at hm
      · simp at hm
      · rename_i hcl
        simp at hcl
        split at hm
        · simp at hm
        · rename_i hl
          simp at hl
          split at hm
          · simp at hm
          · rename_i hne
            have := mem_setState hm
            exact ⟨by rw [this.1, this.2.1]; exact this.2.2, Site.onClose t tr htr hcl hl hne this.1 this.2.1⟩
    · simp at hm
  | tearDown =>
    simp only [acStep] at hm
    split at hm
    · simp at hm
    · rename_i hns
      have := mem_setState hm
      exact ⟨by rw [this.1, this.2.1]; exact this.2.2, Site.tearDown hns this.1 this.2.1⟩
  | updateAddrs k still =>
    simp only [acStep] at hm
    split at hm
    · simp at hm
    · rename_i hst
      split at hm
      · simp at hm
      · rename_i hrs
        have hcr : a.state = .connecting ∨ a.state = .ready := by
          cases hs : a.state <;> simp [hs] at hst ⊢
        by_cases hk : k = 0
        · subst hk
          simp only [if_true] at hm
          rw [List.mem_append] at hm
          rcases hm with hm | hm
          · have := mem_setState hm
            exact ⟨by rw [this.1, this.2.1]; exact this.2.2, Site.updateAddrs 0 still hcr (Or.inl ⟨this.1, this.2.1⟩)⟩
          · have := mem_startConnect hm
            rw [setState_fst] at this
            exact ⟨by rw [this.1, this.2.1]; exact this.2.2.1,
              Site.updateAddrs 0 still hcr (Or.inr ⟨Or.inr this.1, this.2.1⟩)⟩
        · simp only [hk, if_false, List.nil_append] at hm
          have := mem_startConnect hm
          exact ⟨by rw [this.1, this.2.1]; exact this.2.2.1, Site.updateAddrs k still hcr (Or.inr ⟨Or.inl this.1, this.2.1⟩)⟩
  | healthSet t s =>
    simp only [acStep] at hm
    split at hm
    · rename_i tr htr
      split at hm
      · rename_i hc
        have := mem_setState hm
        exact ⟨by rw [this.1, this.2.1]; exact this.2.2, Site.health t s tr htr hc.1 hc.2.1 hc.2.2 this.1 this.2.1⟩
      · simp at hm
    · simp at hm

/-- a goroutine is at `afterBackoff` only by leaving the back-off select through the timer /
    ResetConnectBackoff (`backoffEnd`) -/
theorem afterBackoff_only_via_backoffEnd (a : AC) (act : AcAct) (g : Nat) (y : Gor)
    (h : (acStep a act).1.gors g = some y) (hp : y.pc = GPc.afterBackoff) :
    (∃ x, a.gors g = some x ∧ x.pc = GPc.afterBackoff) ∨
    (act = AcAct.backoffEnd g ∧ ∃ x, a.gors g = some x ∧ x.pc = GPc.backoff) := by
  cases act with
  | backoffEnd g' =>
    simp only [acStep] at h
    split at h
    · rename_i x hg
      split at h
      · rename_i hpc
        simp only [AC.setGor] at h
        split at h
        · rename_i e; subst e
          exact Or.inr ⟨rfl, x, hg, hpc⟩
        · exact Or.inl ⟨y, h, hp⟩
      · exact Or.inl ⟨y, h, hp⟩
    · exact Or.inl ⟨y, h, hp⟩
  | _ =>
    simp only [acStep, AC.startConnect] at h
    repeat' split at h
    all_goals (simp only [AC.setGor, AC.setTr, setState_fst] at h)
    all_goals (try (split at h))
    all_goals (first | exact Or.inl ⟨y, h, hp⟩ | (simp at h; subst h; simp at hp))

/-- The list of changes reported by one action: none, one (from the current state), or — only
    updateAddrs with an empty list — CURRENT→IDLE→CONNECTING; the last target is the new state. -/
theorem changes_shape (a : AC) (act : AcAct) :
    ((acStep a act).2 = [] ∧ (acStep a act).1.state = a.state) ∨
    (∃ n, (acStep a act).2 = [(a.state, n)] ∧ (acStep a act).1.state = n ∧ a.state ≠ n) ∨
    ((acStep a act).2 = [(a.state, .idle), (.idle, .connecting)] ∧ (acStep a act).1.state = .connecting ∧ a.state ≠ .idle) := by
  have one : ∀ (y : AC) (s : ConnState), y.state = a.state →
      (((y.setState s).2 = [] ∧ (y.setState s).1.state = a.state) ∨
       (∃ n, (y.setState s).2 = [(a.state, n)] ∧ (y.setState s).1.state = n ∧ a.state ≠ n)) := by
    intro y s hy
    rw [setState_snd, setState_fst, ← hy]
    by_cases h : y.state = s
    · left; simp [h]
    · right; exact ⟨s, by simp [h], rfl, h⟩
  have sc : ∀ (y : AC), y.state = a.state →
      ((y.startConnect.2 = [] ∧ y.startConnect.1.state = a.state) ∨
       (∃ n, y.startConnect.2 = [(a.state, n)] ∧ y.startConnect.1.state = n ∧ a.state ≠ n)) := by
    intro y hy
    unfold AC.startConnect
    split
    · left; exact ⟨rfl, hy⟩
    · rcases one y .connecting hy with ⟨h1, h2⟩ | ⟨n, h1, h2, h3⟩
      · left; exact ⟨h1, by simpa [AC.setGor] using h2⟩
      · right; exact ⟨n, h1, by simpa [AC.setGor] using h2, h3⟩
  have lift : ∀ {l : List (ConnState × ConnState)} {st : ConnState},
      ((l = [] ∧ st = a.state) ∨ (∃ n, l = [(a.state, n)] ∧ st = n ∧ a.state ≠ n)) →
      ((l = [] ∧ st = a.state) ∨ (∃ n, l = [(a.state, n)] ∧ st = n ∧ a.state ≠ n) ∨
       (l = [(a.state, .idle), (.idle, .connecting)] ∧ st = .connecting ∧ a.state ≠ .idle)) := by
    intro l st h
    rcases h with h | h
    · exact Or.inl h
    · exact Or.inr (Or.inl h)
  cases act with
  | connect =>
    simp only [acStep]
    split
    · exact Or.inl ⟨rfl, rfl⟩
    · split
      · exact Or.inl ⟨rfl, rfl⟩
      · exact lift (sc a rfl)
  | dialFail g => simp only [acStep]; repeat' split
                  all_goals exact Or.inl ⟨rfl, rfl⟩
  | dialNone g => simp only [acStep]; repeat' split
                  all_goals exact Or.inl ⟨rfl, rfl⟩
  | dialOk g => simp only [acStep]; repeat' split
                all_goals exact Or.inl ⟨rfl, rfl⟩
  | backoffEnd g => simp only [acStep]; repeat' split
                    all_goals exact Or.inl ⟨rfl, rfl⟩
  | backoffCtxDone g => simp only [acStep]; repeat' split
                        all_goals exact Or.inl ⟨rfl, rfl⟩
  | lockCreated g =>
    simp only [acStep]
    repeat' split
    all_goals first
      | exact Or.inl ⟨rfl, rfl⟩
      | exact lift (one _ _ rfl)
  | lockFailed g =>
    simp only [acStep]
    repeat' split
    all_goals first
      | exact Or.inl ⟨rfl, rfl⟩
      | exact lift (one _ _ rfl)
  | lockAfterBackoff g =>
    simp only [acStep]
    repeat' split
    all_goals first
      | exact Or.inl ⟨rfl, rfl⟩
      | exact lift (one _ _ rfl)
  | onClose t =>
    simp only [acStep]
    repeat' split
    all_goals first
      | exact Or.inl ⟨rfl, rfl⟩
      | exact lift (one _ _ rfl)
  | healthSet t s =>
    simp only [acStep]
    repeat' split
    all_goals first
      | exact Or.inl ⟨rfl, rfl⟩
      | exact lift (one _ _ rfl)
  | tearDown =>
    simp only [acStep]
    split
    · exact Or.inl ⟨rfl, rfl⟩
    · exact lift (one { a with transport := none } .shutdown rfl)
  | updateAddrs k still =>
    simp only [acStep]
    split
    · exact Or.inl ⟨rfl, rfl⟩
    · split
      · exact Or.inl ⟨rfl, rfl⟩
      · rename_i hst hrs
        have hni : a.state ≠ .idle := fun h => hst (Or.inr (Or.inr h))
        by_cases hk : k = 0
        · subst hk
          simp only [if_true]
          rw [setState_snd, setState_fst]
          simp only [hni, if_false]
          unfold AC.startConnect
          split
          · right; left
            exact ⟨.idle, by simp, rfl, hni⟩
          · right; right
            rw [setState_snd]
            refine ⟨by simp, ?_, hni⟩
            show (AC.setGor _ _ _).state = _
            simp only [AC.setGor, setState_fst]
        · simp only [hk, if_false, List.nil_append]
          exact lift (sc _ rfl)

end GrpcProofs.Lemmas.Connectivity
