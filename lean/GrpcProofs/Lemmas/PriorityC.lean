/-
Helper lemmas for C39, part 3: the started children are exactly the sub-balancers the balancer
group holds as active (not in its deletion cache), preserved by every operation.
-/
import GrpcProofs.Lemmas.PriorityB
namespace GrpcProofs.Lemmas.Priority
open GrpcModel.Priority

/-! ### started children are exactly the sub-balancers the balancer group holds as active -/

def activeSb (s : St) (n : Nat) : Prop := ∃ b ∈ s.sbs, b.name = n ∧ b.cachedUntil = none
def startedChild (s : St) (n : Nat) : Prop := ∃ c ∈ s.children, c.name = n ∧ c.started = true

abbrev sbNames (l : List Sb) : List Nat := l.map (·.name)

structure SBok (s : St) : Prop where
  nd : (sbNames s.sbs).Nodup
  iff : ∀ n, activeSb s n ↔ startedChild s n

theorem insertSb_perm (c : Sb) (l : List Sb) : (insertSb c l).Perm (c :: l) := by
  induction l with
  | nil => exact List.Perm.refl _
  | cons x xs ih =>
    unfold insertSb
    split
    · exact List.Perm.refl _
    · exact (List.Perm.cons x ih).trans (List.Perm.swap c x xs)

theorem sbNames_map {l : List Sb} {g : Sb → Sb} (hg : ∀ b, (g b).name = b.name) : sbNames (l.map g) = sbNames l := by
  simp only [sbNames, List.map_map]
  apply List.map_congr_left; intro b _; exact hg b

theorem startedChild_map {s t : St} (g : Child → Child) (hg : ∀ x, (g x).name = x.name) (hc : t.children = s.children.map g) (n : Nat) :
    startedChild t n ↔ ∃ c ∈ s.children, c.name = n ∧ (g c).started = true := by
  unfold startedChild
  rw [hc]
  constructor
  · rintro ⟨c', hc', hn, hs⟩
    obtain ⟨c, hcm, rfl⟩ := List.mem_map.mp hc'
    exact ⟨c, hcm, by rw [← hn, hg], hs⟩
  · rintro ⟨c, hcm, hn, hs⟩
    exact ⟨g c, List.mem_map_of_mem hcm, by rw [hg, hn], hs⟩

theorem stopChild_sb (s : St) (hn : (names s.children).Nodup) (h : SBok s) (n : Nat) (imm : Bool) : SBok (stopChild s n imm) := by
  obtain ⟨hch, _⟩ := stopChild_children s hn n imm
  have hst : ∀ m, startedChild (stopChild s n imm) m ↔ (m ≠ n ∧ startedChild s m) := by
    intro m
    rw [startedChild_map (stopF n) (stopF_name n) hch]
    constructor
    · rintro ⟨c, hc, hcn, hs⟩
      unfold stopF at hs
      by_cases hcond : c.name = n ∧ c.started = true
      · simp [hcond, resetChild] at hs
      · simp only [hcond, if_false] at hs
        refine ⟨?_, c, hc, hcn, hs⟩
        intro hmn; exact hcond ⟨hcn.trans hmn, hs⟩
    · rintro ⟨hne, c, hc, hcn, hs⟩
      refine ⟨c, hc, hcn, ?_⟩
      have hne2 : c.name ≠ n := fun hh => hne (hcn.symm.trans hh)
      simp [stopF, hne2, hs]
  unfold stopChild at *
  cases hf : findChild s n with
  | none => simpa [hf] using h
  | some c =>
    simp only [hf] at hst ⊢
    by_cases hs : c.started = true
    · simp only [hs, Bool.not_true, Bool.false_eq_true, if_false] at hst ⊢
      cases imm with
      | true =>
        simp only [if_true] at hst ⊢
        constructor
        · exact List.Nodup.sublist (List.Sublist.map _ List.filter_sublist) h.nd
        · intro m
          rw [hst m, ← h.iff m]
          unfold activeSb
          constructor
          · rintro ⟨b, hb, hbn, hbc⟩
            have := List.mem_filter.mp hb
            exact ⟨by intro hmn; have := this.2; simp [hbn, hmn] at this, b, this.1, hbn, hbc⟩
          · rintro ⟨hne, b, hb, hbn, hbc⟩
            exact ⟨b, List.mem_filter.mpr ⟨hb, by simp [hbn, hne]⟩, hbn, hbc⟩
      | false =>
        simp only [Bool.false_eq_true, if_false] at hst ⊢
        constructor
        · show (sbNames (s.sbs.map _)).Nodup
          rw [sbNames_map]
          · exact h.nd
          · intro b; split <;> rfl
        · intro m
          rw [hst m, ← h.iff m]
          unfold activeSb
          constructor
          · rintro ⟨b', hb', hbn, hbc⟩
            obtain ⟨b, hb, rfl⟩ := List.mem_map.mp hb'
            by_cases hbn' : b.name = n
            · simp [hbn'] at hbc
            · simp only [hbn', if_false] at hbn hbc
              exact ⟨by intro hmn; exact hbn' (hbn.trans hmn), b, hb, hbn, hbc⟩
          · rintro ⟨hne, b, hb, hbn, hbc⟩
            refine ⟨_, List.mem_map_of_mem hb, ?_⟩
            have : b.name ≠ n := fun hh => hne (hbn.symm.trans hh)
            refine ⟨?_, ?_⟩
            · show (if b.name = n then _ else b).name = m
              rw [if_neg this]; exact hbn
            · show (if b.name = n then _ else b).cachedUntil = none
              rw [if_neg this]; exact hbc
    · have hs' : c.started = false := by simpa using hs
      simpa [hs'] using h

theorem findSb_none_iff {s : St} {n : Nat} : findSb s n = none ↔ n ∉ sbNames s.sbs := by
  unfold findSb
  rw [List.find?_eq_none]
  simp only [sbNames, List.mem_map, not_exists, not_and]
  constructor
  · intro h b hb hn; have := h b hb; simp [hn] at this
  · intro h b hb; simp; intro hn; exact h b hb hn

theorem findSb_some {s : St} {n : Nat} {b : Sb} (h : findSb s n = some b) : b ∈ s.sbs ∧ b.name = n := by
  unfold findSb at h
  exact ⟨List.mem_of_find?_eq_some h, by simpa using List.find?_some h⟩

theorem sbok_of (s t : St) (h : SBok s) (n : Nat)
    (hnd : (sbNames t.sbs).Nodup)
    (hst : ∀ m, startedChild t m ↔ (m = n ∨ startedChild s m))
    (hact : ∀ m, activeSb t m ↔ (m = n ∨ activeSb s m)) : SBok t :=
  ⟨hnd, fun m => by rw [hst m, hact m, h.iff m]⟩

theorem startChild_sb (s : St) (hn : (names s.children).Nodup) (h : SBok s) (n : Nat) : SBok (startChild s n) := by
  obtain ⟨hch, _⟩ := startChild_children s hn n
  unfold startChild at *
  cases hf : findChild s n with
  | none => simpa [hf] using h
  | some c =>
    obtain ⟨hcm, hcn⟩ := findChild_some hf
    simp only [hf] at hch ⊢
    by_cases hs : c.started = true
    · simpa [hs] using h
    · have hs' : c.started = false := by simpa using hs
      simp only [hs', Bool.false_eq_true, if_false] at hch ⊢
      -- started children afterwards
      have hst : ∀ t : St, t.children = s.children.map (startF s.now n) → ∀ m, startedChild t m ↔ (m = n ∨ startedChild s m) := by
        intro t ht m
        rw [startedChild_map (startF s.now n) (startF_name s.now n) ht]
        constructor
        · rintro ⟨x, hx, hxn, hxs⟩
          by_cases hmn : m = n
          · exact Or.inl hmn
          · right
            have : x.name ≠ n := fun hh => hmn (hxn.symm.trans hh)
            simp only [startF, this, false_and, if_false] at hxs
            exact ⟨x, hx, hxn, hxs⟩
        · rintro (rfl | ⟨x, hx, hxn, hxs⟩)
          · exact ⟨c, hcm, hcn, by simp [startF, hcn, hs']⟩
          · refine ⟨x, hx, hxn, ?_⟩
            unfold startF; split
            · rfl
            · exact hxs
      have hfs : findSb (modChild s n fun c => { c with started := true, timer := some (c.timer.getD (s.now + initTimeout)) }) n = findSb s n := rfl
      rw [hfs] at hch ⊢
      cases hb : findSb s n with
      | none =>
        simp only [hb] at hch ⊢
        have hnot := findSb_none_iff.mp hb
        have hperm := insertSb_perm ⟨n, c.typ, none, none⟩ s.sbs
        apply sbok_of s _ h n
        · show (sbNames (insertSb _ s.sbs)).Nodup
          have : (sbNames (insertSb ⟨n, c.typ, none, none⟩ s.sbs)).Perm (n :: sbNames s.sbs) := by
            have := hperm.map (·.name); simpa [sbNames] using this
          rw [this.nodup_iff]; exact List.nodup_cons.mpr ⟨hnot, h.nd⟩
        · exact hst _ hch
        · intro m
          unfold activeSb
          constructor
          · rintro ⟨b, hbm, hbn, hbc⟩
            rcases List.mem_cons.mp (hperm.mem_iff.mp hbm) with rfl | hbm'
            · exact Or.inl hbn.symm
            · exact Or.inr ⟨b, hbm', hbn, hbc⟩
          · rintro (rfl | ⟨b, hbm, hbn, hbc⟩)
            · exact ⟨_, hperm.mem_iff.mpr (List.mem_cons_self), rfl, rfl⟩
            · exact ⟨b, hperm.mem_iff.mpr (List.mem_cons_of_mem _ hbm), hbn, hbc⟩
      | some b0 =>
        obtain ⟨hb0m, hb0n⟩ := findSb_some hb
        simp only [hb] at hch ⊢
        by_cases hty : b0.typ = c.typ
        · simp only [hty, if_true] at hch ⊢
          apply sbok_of s _ h n
          · show (sbNames (s.sbs.map _)).Nodup
            rw [sbNames_map]
            · exact h.nd
            · intro b; split <;> rfl
          · exact hst _ hch
          · intro m
            unfold activeSb
            constructor
            · rintro ⟨b', hb', hbn, hbc⟩
              obtain ⟨b, hbm, rfl⟩ := List.mem_map.mp hb'
              by_cases hbn' : b.name = n
              · left; simp only [hbn', if_true] at hbn; exact hbn.symm
              · simp only [hbn', if_false] at hbn hbc; exact Or.inr ⟨b, hbm, hbn, hbc⟩
            · rintro (rfl | ⟨b, hbm, hbn, hbc⟩)
              · refine ⟨_, List.mem_map_of_mem hb0m, ?_, ?_⟩
                · show (if b0.name = m then _ else b0).name = m
                  rw [if_pos hb0n]; exact hb0n
                · show (if b0.name = m then _ else b0).cachedUntil = none
                  rw [if_pos hb0n]
              · refine ⟨_, List.mem_map_of_mem hbm, ?_, ?_⟩
                · show (if b.name = n then _ else b).name = m
                  split
                  · exact hbn
                  · exact hbn
                · show (if b.name = n then _ else b).cachedUntil = none
                  split
                  · rfl
                  · exact hbc
        · simp only [hty, if_false] at hch ⊢
          have hperm := insertSb_perm ⟨n, c.typ, none, none⟩ (s.sbs.filter (·.name ≠ n))
          apply sbok_of s _ h n
          · show (sbNames (insertSb _ (s.sbs.filter (·.name ≠ n)))).Nodup
            have : (sbNames (insertSb ⟨n, c.typ, none, none⟩ (s.sbs.filter (·.name ≠ n)))).Perm (n :: sbNames (s.sbs.filter (·.name ≠ n))) := by
              have := hperm.map (·.name); simpa [sbNames] using this
            rw [this.nodup_iff]
            refine List.nodup_cons.mpr ⟨?_, List.Nodup.sublist (List.Sublist.map _ List.filter_sublist) h.nd⟩
            intro hmem
            obtain ⟨b, hbm, hbn⟩ := List.mem_map.mp hmem
            have := (List.mem_filter.mp hbm).2
            simp [hbn] at this
          · exact hst _ hch
          · intro m
            unfold activeSb
            constructor
            · rintro ⟨b, hbm, hbn, hbc⟩
              rcases List.mem_cons.mp (hperm.mem_iff.mp hbm) with rfl | hbm'
              · exact Or.inl hbn.symm
              · exact Or.inr ⟨b, (List.mem_filter.mp hbm').1, hbn, hbc⟩
            · rintro (rfl | ⟨b, hbm, hbn, hbc⟩)
              · exact ⟨_, hperm.mem_iff.mpr (List.mem_cons_self), rfl, rfl⟩
              · by_cases hmn : m = n
                · subst hmn
                  exact ⟨_, hperm.mem_iff.mpr (List.mem_cons_self), rfl, rfl⟩
                · refine ⟨b, hperm.mem_iff.mpr (List.mem_cons_of_mem _ (List.mem_filter.mpr ⟨hbm, ?_⟩)), hbn, hbc⟩
                  simp [hbn, hmn]

theorem sbok_congr {s t : St} (h : SBok s) (hs : t.sbs = s.sbs) (hc : t.children = s.children) : SBok t := by
  refine ⟨by rw [hs]; exact h.nd, fun n => ?_⟩
  unfold activeSb startedChild
  rw [hs, hc]; exact h.iff n

theorem stopLower_sb (s : St) (hn : (names s.children).Nodup) (h : SBok s) (lower : List Nat) : SBok (stopLower s lower) := by
  unfold stopLower
  induction lower generalizing s with
  | nil => exact h
  | cons n rest ih =>
    simp only [List.foldl_cons]
    obtain ⟨h1, _⟩ := stopChild_children s hn n false
    exact ih _ (by rw [h1, names_map (stopF_name n)]; exact hn) (stopChild_sb s hn h n false)

theorem switchTo_sb (s : St) (hn : (names s.children).Nodup) (h : SBok s) (c : Child) (rest : List Nat) :
    SBok (switchTo s c rest) := by
  unfold switchTo
  obtain ⟨h1, _⟩ := stopLower_children s hn rest
  have hn' : (names (stopLower s rest).children).Nodup := by rw [h1, names_map (stopAllF_name rest)]; exact hn
  have h2 := stopLower_sb s hn h rest
  simp only
  split
  · exact h2
  · have h3 : SBok { stopLower s rest with inUse := some c.name } := sbok_congr h2 rfl rfl
    split
    · exact startChild_sb { stopLower s rest with inUse := some c.name } hn' h3 c.name
    · exact h3

theorem syncFrom_sb (s : St) (hn : (names s.children).Nodup) (h : SBok s) (upd : Option Nat) (rest : List Nat) :
    SBok (syncFrom s upd rest) := by
  induction rest with
  | nil => exact h
  | cons n rest' ih =>
    simp only [syncFrom]
    split
    · exact ih
    · split
      · split
        · exact switchTo_sb (sendUp s _) hn (sbok_congr h rfl rfl) _ _
        · exact switchTo_sb s hn h _ _
      · exact ih

theorem sync_sb (s : St) (hn : (names s.children).Nodup) (h : SBok s) (upd : Option Nat) : SBok (sync s upd) :=
  syncFrom_sb s hn h upd s.prios

theorem sbok_modChild (s : St) (h : SBok s) (n : Nat) (f : Child → Child) (hf : ∀ c, (f c).name = c.name ∧ (f c).started = c.started) :
    SBok (modChild s n f) := by
  refine ⟨h.nd, fun m => ?_⟩
  rw [show activeSb (modChild s n f) m ↔ activeSb s m from Iff.rfl, h.iff m]
  rw [startedChild_map (t := modChild s n f) (fun c => if c.name = n then f c else c) (by intro x; split; exact (hf x).1; rfl) rfl]
  unfold startedChild
  have key : ∀ c : Child, (if c.name = n then f c else c).started = c.started := by
    intro c; split
    · exact (hf c).2
    · rfl
  constructor
  · rintro ⟨c, hc, hcn, hs⟩
    exact ⟨c, hc, hcn, by rw [key c]; exact hs⟩
  · rintro ⟨c, hc, hcn, hs⟩
    exact ⟨c, hc, hcn, by rw [key c] at hs; exact hs⟩

theorem sbok_filter {t t' : St} (h : SBok t) (p : Child → Bool) (hs : t'.sbs = t.sbs) (hc : t'.children = t.children.filter p)
    (hp : ∀ c ∈ t.children, c.started = true → p c = true) : SBok t' := by
  refine ⟨by rw [hs]; exact h.nd, fun m => ?_⟩
  have : activeSb t' m ↔ activeSb t m := by unfold activeSb; rw [hs]
  rw [this, h.iff m]
  unfold startedChild
  rw [hc]
  constructor
  · rintro ⟨c, hc', hcn, hst⟩
    exact ⟨c, List.mem_filter.mpr ⟨hc', hp c hc' hst⟩, hcn, hst⟩
  · rintro ⟨c, hc', hcn, hst⟩
    exact ⟨c, (List.mem_filter.mp hc').1, hcn, hst⟩

/-- Good2 + the balancer-group link -/
structure Good3 (s : St) : Prop where
  g2 : Good2 s
  sb : SBok s

theorem handleChild_sb (s : St) (h : Good3 s) (n : Nat) (p : PState) : SBok (handleChild s n p) := by
  unfold handleChild
  split
  · exact h.sb
  · split
    · exact h.sb
    · apply sync_sb
      · show (names (s.children.map _)).Nodup
        rw [names_map]; exact h.g2.good.st.cn
        intro x; split
        · exact applyState_name _ _ _
        · rfl
      · exact sbok_modChild s h.sb n _ (fun c => ⟨applyState_name _ c _, applyState_started _ c _⟩)

theorem handleChild_good3 (s : St) (h : Good3 s) (n : Nat) (p : PState) : Good3 (handleChild s n p) :=
  ⟨handleChild_good2 s h.g2 n p, handleChild_sb s h n p⟩

theorem drain_good3 (fuel : Nat) (s : St) (h : Good3 s) : Good3 (drain fuel s) := by
  induction fuel generalizing s with
  | zero => exact h
  | succ k ih =>
    unfold drain
    split
    · exact h
    · next n p rest _ =>
      have hq : Good3 { s with queue := rest } := ⟨⟨good_queue s h.g2.good rest, h.g2.ti⟩, sbok_congr h.sb rfl rfl⟩
      exact ih _ (handleChild_good3 _ hq n p)

theorem settle_good3 (s : St) (h : Good3 s) : Good3 (settle s) := drain_good3 _ s h

theorem timerFire_sb (s : St) (h : Good3 s) (n : Nat) : SBok (timerFire s n) := by
  unfold timerFire
  have h1 : SBok (modChild s n fun c => { c with timer := none }) := sbok_modChild s h.sb n _ (fun c => ⟨rfl, rfl⟩)
  have hn : (names (modChild s n fun c => { c with timer := none }).children).Nodup := by
    show (names (s.children.map _)).Nodup
    rw [names_map]; exact h.g2.good.st.cn
    intro x; split <;> rfl
  -- re-use the Good2 part of timerFire through settle_good3 on the synced state
  have hst : Struct (modChild s n fun c => { c with timer := none }) := by
    apply struct_modChild s h.g2.good.st n (fun c => { c with timer := none }) (fun c => rfl)
    intro x hx _ hst
    exact ⟨(h.g2.good.st.idle x hx hst).1, rfl⟩
  have hti : AllTI (modChild s n fun c => { c with timer := none }) :=
    allTI_of_map h.g2.ti (fun c => if c.name = n then { c with timer := none } else c) rfl (by
      intro x _ hx; split
      · exact ⟨fun _ => rfl, hx.2⟩
      · exact hx)
  by_cases hp : s.prios = []
  · have : sync (modChild s n fun c => { c with timer := none }) none = modChild s n fun c => { c with timer := none } := by
      unfold sync; show syncFrom _ _ (modChild s n _).prios = _
      have : (modChild s n fun c => { c with timer := none }).prios = [] := hp
      rw [this]; rfl
    rw [this]
    exact (settle_good3 _ ⟨⟨⟨hst, fun hh => absurd hp hh, fun _ => h.g2.good.none hp⟩, hti⟩, h1⟩).sb
  · have hup : PreUp (modChild s n fun c => { c with timer := none }) none := by
      intro c' hin hf' _
      rw [modChild_findChild s n (fun c => { c with timer := none }) (fun c => rfl)] at hf'
      cases hf0 : findChild s c'.name with
      | none => simp [hf0] at hf'
      | some c0 =>
        simp only [hf0, Option.map_some, Option.some.injEq] at hf'
        have hl := good_preUp_other h.g2.good c0 (by
          obtain ⟨_, hc0n⟩ := findChild_some hf0
          rw [hc0n]; exact hin) (by
          obtain ⟨_, hc0n⟩ := findChild_some hf0
          rw [hc0n]; exact hf0) (by simp)
        rw [← hf']
        show s.lastUp = _
        rw [hl]; split <;> rfl
    exact (settle_good3 _ ⟨⟨(sync_good _ hst none hup hp).1, sync_ti _ hn hti none⟩, sync_sb _ hn h1 none⟩).sb

theorem updChild_sb (s : St) (hcs : CS s) (h : SBok s) (nt : Nat × Nat) : SBok (updChild s nt) := by
  unfold updChild
  cases hf : findChild s nt.1 with
  | none =>
    -- a new, not started child: no active sub-balancer can exist for its name
    have hnot := findChild_none_iff.mp hf
    have hperm := insertChild_perm ⟨nt.1, nt.2, false, initState, false, none⟩ s.children
    refine ⟨h.nd, fun m => ?_⟩
    rw [show activeSb { s with children := insertChild ⟨nt.1, nt.2, false, initState, false, none⟩ s.children } m ↔ activeSb s m from Iff.rfl, h.iff m]
    unfold startedChild
    constructor
    · rintro ⟨c, hc, hcn, hs⟩
      exact ⟨c, hperm.mem_iff.mpr (List.mem_cons_of_mem _ hc), hcn, hs⟩
    · rintro ⟨c, hc, hcn, hs⟩
      rcases List.mem_cons.mp (hperm.mem_iff.mp hc) with rfl | hc'
      · simp at hs
      · exact ⟨c, hc', hcn, hs⟩
  | some c =>
    simp only
    have h1 : SBok (if c.typ ≠ nt.2 then modChild (stopChild s nt.1 true) nt.1 fun c => { c with typ := nt.2 } else s) := by
      split
      · exact sbok_modChild _ (stopChild_sb s hcs.cn h nt.1 true) nt.1 _ (fun c => ⟨rfl, rfl⟩)
      · exact h
    split
    · split
      · exact sbok_congr h1 rfl rfl
      · exact h1
    · exact h1

theorem update_sb (s : St) (h : Good3 s) (prios : List Nat) (kids : List (Nat × Nat)) (hv : ValidCfg prios kids) :
    SBok (update s prios kids) := by
  unfold update
  simp only
  have hcs : CS s := ⟨h.g2.good.st.cn, h.g2.good.st.idle⟩
  have hfold : ∀ (l : List (Nat × Nat)) (t : St), CS t → AllTI t → SBok t →
      CS (l.foldl updChild t) ∧ AllTI (l.foldl updChild t) ∧ SBok (l.foldl updChild t) := by
    intro l
    induction l with
    | nil => intro t h1 h2 h3; exact ⟨h1, h2, h3⟩
    | cons nt rest ih =>
      intro t h1 h2 h3
      simp only [List.foldl_cons]
      exact ih _ (updChild_cs t h1 nt).1 (updChild_ti t h1 h2 nt) (updChild_sb t h1 h3 nt)
  obtain ⟨f1, f2, f3⟩ := hfold kids s hcs h.g2.ti h.sb
  have hstop : ∀ (l : List Nat) (t : St), CS t → AllTI t → SBok t →
      CS (l.foldl (fun s n => stopChild s n true) t) ∧ AllTI (l.foldl (fun s n => stopChild s n true) t) ∧
      SBok (l.foldl (fun s n => stopChild s n true) t) ∧
      (∀ c ∈ (l.foldl (fun s n => stopChild s n true) t).children, c.name ∈ l → c.started = false) := by
    intro l
    induction l with
    | nil => intro t h1 h2 h3; exact ⟨h1, h2, h3, fun c _ hc => by cases hc⟩
    | cons n rest ih =>
      intro t h1 h2 h3
      simp only [List.foldl_cons]
      obtain ⟨i1, i2, i3, i4⟩ := ih _ (stopChild_cs t h1 n true).1 (stopChild_ti t h1.cn h2 n true) (stopChild_sb t h1.cn h3 n true)
      refine ⟨i1, i2, i3, ?_⟩
      intro c hc hcn
      by_cases hr : c.name ∈ rest
      · exact i4 c hc hr
      · have hcn' : c.name = n := by
          rcases List.mem_cons.mp hcn with h | h
          · exact h
          · exact absurd h hr
        -- c comes from the state after stopping n; later stops of other names leave it alone or reset it
        have hkey : ∀ (l2 : List Nat) (u : St), (names u.children).Nodup →
            (∀ x ∈ u.children, x.name = n → x.started = false) →
            ∀ x ∈ (l2.foldl (fun s n => stopChild s n true) u).children, x.name = n → x.started = false := by
          intro l2
          induction l2 with
          | nil => intro u _ hu x hx hxn; exact hu x hx hxn
          | cons k ks ih2 =>
            intro u hun hu
            simp only [List.foldl_cons]
            obtain ⟨hc1, _⟩ := stopChild_children u hun k true
            apply ih2 _ (by rw [hc1, names_map (stopF_name k)]; exact hun)
            intro x hx hxn
            rw [hc1] at hx
            obtain ⟨x0, hx0, rfl⟩ := List.mem_map.mp hx
            unfold stopF; split
            · rfl
            · exact hu x0 hx0 (by rw [← hxn, stopF_name])
        obtain ⟨hc1, _⟩ := stopChild_children t h1.cn n true
        refine hkey rest (stopChild t n true) (by rw [hc1, names_map (stopF_name n)]; exact h1.cn) ?_ c hc hcn'
        intro x hx hxn
        rw [hc1] at hx
        obtain ⟨x0, hx0, rfl⟩ := List.mem_map.mp hx
        have hx0n : x0.name = n := by rw [← hxn, stopF_name]
        unfold stopF
        by_cases hs0 : x0.started = true
        · simp [hx0n, hs0, resetChild]
        · simp only [hx0n, hs0, and_false, if_false]; simpa using hs0
  have hdrop : SBok (dropChildren (kids.foldl updChild s) (kids.map (·.1))) ∧ AllTI (dropChildren (kids.foldl updChild s) (kids.map (·.1))) := by
    unfold dropChildren
    simp only
    obtain ⟨_, g2, g3, g4⟩ := hstop ((List.filter (fun c => !(kids.map (·.1)).contains c.name) (kids.foldl updChild s).children).map (·.name))
      (kids.foldl updChild s) f1 f2 f3
    refine ⟨?_, fun c hc => g2 c (List.mem_filter.mp hc).1⟩
    refine sbok_filter g3 (fun c => (kids.map (·.1)).contains c.name) rfl rfl ?_
    intro c hc hs
    cases hk : (kids.map (·.1)).contains c.name with
    | true => rfl
    | false =>
      exfalso
      have hnames := (foldl_stop_cs ((List.filter (fun c => !(kids.map (·.1)).contains c.name) (kids.foldl updChild s).children).map (·.name))
        (kids.foldl updChild s) f1).2.1
      have hmem : c.name ∈ names (kids.foldl updChild s).children := by rw [← hnames]; exact List.mem_map_of_mem hc
      obtain ⟨c0, hc0, hc0n⟩ := List.mem_map.mp hmem
      have : c.name ∈ (List.filter (fun c => !(kids.map (·.1)).contains c.name) (kids.foldl updChild s).children).map (·.name) := by
        refine List.mem_map.mpr ⟨c0, List.mem_filter.mpr ⟨hc0, ?_⟩, hc0n⟩
        rw [hc0n, hk]; rfl
      have := g4 c hc this
      rw [hs] at this; cases this
  obtain ⟨_, f2', _⟩ := foldl_updChild_cs kids s hcs
  obtain ⟨d1, d2, _⟩ := dropChildren_cs (kids.foldl updChild s) f1 (kids.map (·.1))
  have hst : Struct { dropChildren (kids.foldl updChild s) (kids.map (·.1)) with prios := prios } := by
    refine ⟨hv.1, d1.cn, ?_, d1.idle⟩
    intro n hn
    have hk := hv.2 n hn
    have : n ∈ names (dropChildren (kids.foldl updChild s) (kids.map (·.1))).children := by
      rw [d2]
      obtain ⟨nt, hnt, rfl⟩ := List.mem_map.mp hk
      exact ⟨f2' nt hnt, hk⟩
    cases hf : findChild { dropChildren (kids.foldl updChild s) (kids.map (·.1)) with prios := prios } n with
    | none => exact absurd this (findChild_none_iff.mp hf)
    | some _ => rfl
  by_cases hp : prios = []
  · simp only [hp, List.isEmpty_nil, if_true]
    exact sbok_congr hdrop.1 rfl rfl
  · have hpe : prios.isEmpty = false := by cases prios with | nil => exact absurd rfl hp | cons _ _ => rfl
    simp only [hpe, Bool.false_eq_true, if_false]
    have hg : Good (sync { dropChildren (kids.foldl updChild s) (kids.map (·.1)) with prios := prios }
        ({ dropChildren (kids.foldl updChild s) (kids.map (·.1)) with prios := prios } : St).inUse) :=
      (sync_good _ hst _ (by intro c hin _ hne; exact absurd hin hne) hp).1
    have hti2 : AllTI ({ dropChildren (kids.foldl updChild s) (kids.map (·.1)) with prios := prios } : St) := hdrop.2
    have hsb2 : SBok ({ dropChildren (kids.foldl updChild s) (kids.map (·.1)) with prios := prios } : St) := sbok_congr hdrop.1 rfl rfl
    exact (settle_good3 _ ⟨⟨hg, sync_ti ({ dropChildren (kids.foldl updChild s) (kids.map (·.1)) with prios := prios } : St) d1.cn hti2 _⟩,
      sync_sb ({ dropChildren (kids.foldl updChild s) (kids.map (·.1)) with prios := prios } : St) d1.cn hsb2 _⟩).sb

theorem eq_of_nodup_sbnames {l : List Sb} (h : (sbNames l).Nodup) {a b : Sb} (ha : a ∈ l) (hb : b ∈ l)
    (hn : a.name = b.name) : a = b := by
  induction l with
  | nil => cases ha
  | cons x xs ih =>
    simp only [sbNames, List.map_cons, List.nodup_cons] at h
    rcases List.mem_cons.mp ha with rfl | ha' <;> rcases List.mem_cons.mp hb with rfl | hb'
    · rfl
    · exact absurd (by rw [hn]; exact List.mem_map_of_mem hb') h.1
    · exact absurd (by rw [← hn]; exact List.mem_map_of_mem ha') h.1
    · exact ih h.2 ha' hb'

theorem good3_setLast (s : St) (h : Good3 s) (n : Nat) (p : PState) :
    Good3 { s with nextPk := s.nextPk + 1, sbs := s.sbs.map fun b => if b.name = n then { b with last := some p } else b } := by
  refine ⟨good2_congr h.g2 rfl rfl rfl rfl, ?_, fun m => ?_⟩
  · show (sbNames (s.sbs.map _)).Nodup
    rw [sbNames_map]
    · exact h.sb.nd
    · intro b; split <;> rfl
  · have hst : startedChild { s with nextPk := s.nextPk + 1, sbs := s.sbs.map fun b => if b.name = n then { b with last := some p } else b } m
        ↔ startedChild s m := Iff.rfl
    rw [hst, ← h.sb.iff m]
    unfold activeSb
    constructor
    · rintro ⟨b', hb', hbn, hbc⟩
      obtain ⟨b, hb, rfl⟩ := List.mem_map.mp hb'
      refine ⟨b, hb, ?_, ?_⟩
      · split at hbn <;> exact hbn
      · split at hbc <;> exact hbc
    · rintro ⟨b, hb, hbn, hbc⟩
      refine ⟨_, List.mem_map_of_mem hb, ?_, ?_⟩
      · split <;> exact hbn
      · split <;> exact hbc

theorem step_good3 (s : St) (h : Good3 s) (op : Op) (hv : validOp op) : Good3 (step s op) := by
  refine ⟨step_good2 s h.g2 op hv, ?_⟩
  have hclear : Good3 (clearOut s) := ⟨good2_congr h.g2 rfl rfl rfl rfl, sbok_congr h.sb rfl rfl⟩
  cases op with
  | update prios kids => exact update_sb _ hclear prios kids hv
  | child n conn =>
    show SBok ((childReport (clearOut s) n conn).getD (clearOut s))
    unfold childReport
    split
    · exact hclear.sb
    · simp only [Option.getD_some]
      exact (settle_good3 _ (handleChild_good3 _ (good3_setLast (clearOut s) hclear n _) _ _)).sb
  | timer n =>
    show SBok (match findChild s n with
      | some c => if c.timer.isSome then timerFire (clearOut s) n else clearOut s
      | none => clearOut s)
    split
    · split
      · exact timerFire_sb _ hclear n
      · exact hclear.sb
    · exact hclear.sb
  | expire n =>
    show SBok (match findSb s n with
      | some b => if b.cachedUntil.isSome then cacheExpire (clearOut s) n else clearOut s
      | none => clearOut s)
    split
    · next b hb =>
      split
      · next hcached =>
        -- only a cached entry is removed
        obtain ⟨hbm, hbn⟩ := findSb_some hb
        refine ⟨List.Nodup.sublist (List.Sublist.map _ List.filter_sublist) hclear.sb.nd, fun m => ?_⟩
        have hst : startedChild (cacheExpire (clearOut s) n) m ↔ startedChild (clearOut s) m := Iff.rfl
        rw [hst, ← hclear.sb.iff m]
        unfold activeSb
        constructor
        · rintro ⟨b', hb', hbn', hbc'⟩
          exact ⟨b', (List.mem_filter.mp hb').1, hbn', hbc'⟩
        · rintro ⟨b', hb', hbn', hbc'⟩
          refine ⟨b', List.mem_filter.mpr ⟨hb', ?_⟩, hbn', hbc'⟩
          -- b' is active, b is cached, both names would be n: same entry by Nodup
          simp only [ne_eq, decide_not, Bool.not_eq_true', decide_eq_false_iff_not]
          intro hn'
          have hsame : b' = b := eq_of_nodup_sbnames hclear.sb.nd hb' hbm (hn'.trans hbn.symm)
          rw [hsame, ] at hbc'
          rw [hbc'] at hcached; cases hcached
      · exact hclear.sb
    · exact hclear.sb
  | advance d => exact sbok_congr hclear.sb rfl rfl
  | dispatch n =>
    show SBok (dispatch (clearOut s) n)
    unfold dispatch
    repeat' split
    all_goals first | exact hclear.sb | exact sbok_congr hclear.sb rfl rfl
  | runcb =>
    show SBok (runCallback (clearOut s))
    rw [runCallback_eq]
    split
    · exact hclear.sb
    · next n d rest _ =>
      have h1 : Good3 { clearOut s with pending := rest } :=
        ⟨good2_congr hclear.g2 rfl rfl rfl rfl, sbok_congr hclear.sb rfl rfl⟩
      split
      · exact h1.sb
      · split
        · exact timerFire_sb _ h1 n
        · exact h1.sb

theorem reach_good3 {s : St} (h : Reach s) : Good3 s := by
  induction h with
  | init =>
    refine ⟨reach_good2 Reach.init, ⟨by simp [GrpcModel.Priority.init, sbNames], fun n => ?_⟩⟩
    unfold activeSb startedChild
    simp [GrpcModel.Priority.init]
  | step op hv _ ih => exact step_good3 _ ih op hv

end GrpcProofs.Lemmas.Priority
