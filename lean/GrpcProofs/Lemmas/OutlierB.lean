/-
Helper lemmas for C40, part 2: where ejections come from (T1, T2), the max_ejection_percent check
inside the loops (T3), when the counter stays exact (T5), the un-ejection rule (T6), and what an
ejected sub-connection wrapper shows to the child (T7, local invariant).
-/
import GrpcProofs.Lemmas.Outlier
namespace GrpcProofs.Lemmas.Outlier
open GrpcModel.Outlier

theorem eq_of_nodup_ids {eps : List Ep} (h : (idsOf eps).Nodup) {a b : Ep} (ha : a ∈ eps) (hb : b ∈ eps)
    (hid : a.id = b.id) : a = b := by
  induction eps with
  | nil => cases ha
  | cons x xs ih =>
    simp only [idsOf, List.map_cons, List.nodup_cons] at h
    rcases List.mem_cons.mp ha with rfl | ha' <;> rcases List.mem_cons.mp hb with rfl | hb'
    · rfl
    · exact absurd (by rw [hid]; exact List.mem_map_of_mem hb') h.1
    · exact absurd (by rw [← hid]; exact List.mem_map_of_mem ha') h.1
    · exact ih h.2 ha' hb'

/-! ### T1: nothing but the interval timer ejects -/

theorem update_mem (s : St) (c : Cfg) (ids : List Nat) {y : Ep} (hy : y ∈ (update s c ids).1.eps) :
    ids.contains y.id = true ∧
    (c.noop = true → y.ej = none ∧ y.mult = 0) ∧
    (y.ej ≠ none → ∃ x ∈ s.eps, x.id = y.id ∧ x.ej = y.ej ∧ x.mult = y.mult ∧ x.gen = y.gen) := by
  have k := update_kept s c ids
  obtain ⟨z, hz, kz⟩ := k.eps.mem hy
  rw [updateCore_eps] at hz
  -- z is an entry of updEps, possibly cleared / un-ejected
  have key : ∃ u ∈ updEps s ids, u.id = z.id ∧ u.gen = z.gen ∧ (c.noop = true → z.ej = none ∧ z.mult = 0) ∧
      (c.noop = false → z.ej = u.ej ∧ z.mult = u.mult) := by
    split at hz
    · next hn =>
      obtain ⟨u, hu, rfl⟩ := List.mem_map.mp hz
      exact ⟨u, hu, rfl, rfl, fun _ => ⟨rfl, rfl⟩, fun h => by simp [hn] at h⟩
    · next hn =>
      have hn' : c.noop = false := by simpa using hn
      split at hz
      · obtain ⟨u, hu, rfl⟩ := List.mem_map.mp hz
        exact ⟨u, hu, rfl, rfl, fun h => by simp [hn'] at h, fun _ => ⟨rfl, rfl⟩⟩
      · exact ⟨z, hz, rfl, rfl, fun h => by simp [hn'] at h, fun _ => ⟨rfl, rfl⟩⟩
  obtain ⟨u, hu, hid, hgen, hnoop, hkeep⟩ := key
  obtain ⟨hc, hor⟩ := updEps_mem s ids hu
  refine ⟨by rw [kz.id, ← hid]; exact hc, ?_, ?_⟩
  · intro hn; rw [kz.ej, kz.mult]; exact hnoop hn
  · intro hne
    cases hn : c.noop with
    | true => exact absurd (by rw [kz.ej]; exact (hnoop hn).1) hne
    | false =>
      obtain ⟨h1, h2⟩ := hkeep hn
      rcases hor with hmem | hfresh
      · exact ⟨u, hmem, by rw [kz.id, hid], by rw [kz.ej, h1], by rw [kz.mult, h2], by rw [kz.gen, hgen]⟩
      · exact absurd (by rw [kz.ej, h1]; exact hfresh.1) hne

theorem update_keep (s : St) (c : Cfg) (ids : List Nat) (hn : c.noop = false) {x : Ep} (hx : x ∈ s.eps)
    (hc : ids.contains x.id = true) : ∃ y ∈ (update s c ids).1.eps, y.id = x.id ∧ y.ej = x.ej ∧ y.mult = x.mult := by
  have k := update_kept s c ids
  have hu := updEps_keep s ids hx hc
  have : ∃ z ∈ (updateCore s c ids).1.eps, z.id = x.id ∧ z.ej = x.ej ∧ z.mult = x.mult := by
    rw [updateCore_eps]
    simp only [hn, Bool.false_eq_true, if_false]
    split
    · exact ⟨x.clear, List.mem_map_of_mem hu, rfl, rfl, rfl⟩
    · exact ⟨x, hu, rfl, rfl, rfl⟩
  obtain ⟨z, hz, h1, h2, h3⟩ := this
  obtain ⟨y, hy, ky⟩ := k.eps.mem' hz
  exact ⟨y, hy, by rw [ky.id, h1], by rw [ky.ej, h2], by rw [ky.mult, h3]⟩

theorem not_fire_ej (s : St) (op : Op) (hop : ∀ a b c, op ≠ .fire a b c) {y : Ep} (hy : y ∈ (step s op).eps)
    (hej : y.ej ≠ none) : ∃ x ∈ s.eps, x.id = y.id ∧ x.ej = y.ej ∧ x.mult = y.mult := by
  cases hp : plainOp op with
  | true =>
    obtain ⟨x, hx, k⟩ := (plain_kept s op hp).eps.mem hy
    exact ⟨x, hx, k.id.symm, k.ej.symm, k.mult.symm⟩
  | false =>
    cases op with
    | update c ids =>
      obtain ⟨x, hx, h1, h2, h3, _⟩ := (update_mem s c ids hy).2.2 hej
      exact ⟨x, hx, h1, h2, h3⟩
    | fire a b c => exact absurd rfl (hop a b c)
    | _ => simp [plainOp] at hp

/-! ### T2: what a run of the timer ejects -/

theorem mem_swapped {s : St} {w : Ep} (h : w ∈ swapped s) : ∃ x ∈ s.eps, w = x.swap := by
  obtain ⟨x, hx, rfl⟩ := List.mem_map.mp h
  exact ⟨x, hx, rfl⟩

theorem unejStep_ej (c : Cfg) (now : Int) (z : Ep) (h : (unejStep c now z).1.ej ≠ none) :
    (unejStep c now z).1.ej = z.ej ∧ (unejStep c now z).1.mult = z.mult := by
  unfold unejStep at h ⊢
  cases hz : z.ej with
  | none =>
    simp only [hz] at h
    split at h <;> simp_all
  | some ts =>
    simp only [hz] at h ⊢
    split
    · next hd => simp [hd] at h
    · simp [hz]

/-- every endpoint after a run of the timer: where it comes from -/
theorem fire_mem (s : St) (c : Cfg) (hc : s.cfg = some c) (oS oF d : List Nat) {y : Ep}
    (hy : y ∈ (fire s oS oF d).1.eps) :
    ∃ x ∈ s.eps, ∃ z ∈ (algsLoop c s oS oF d).eps, y = (unejStep c s.now z).1 ∧ z.id = x.id ∧
      ∃ js1 js2, AlgsSpec c s (algsLoop c s oS oF d) js1 js2 ∧ z = applyEj s.now (js1 ++ js2) x.swap := by
  obtain ⟨he, _, _⟩ := fire_state s c hc oS oF d
  rw [he, unejPass_eps] at hy
  obtain ⟨z, hz, rfl⟩ := List.mem_map.mp hy
  obtain ⟨js1, js2, sp⟩ := algsLoop_spec c s oS oF d
  have hz' := hz
  rw [sp.eps] at hz'
  obtain ⟨w, hw, rfl⟩ := List.mem_map.mp hz'
  obtain ⟨x, hx, rfl⟩ := mem_swapped hw
  exact ⟨x, hx, _, hz, rfl, (applyEj_sameRest s.now (js1 ++ js2) x.swap).id, js1, js2, sp, rfl⟩

theorem outSet_isOut {k : AlgK} {eps : List Ep} {a : Alg} {w : Ep} (hn : (idsOf eps).Nodup) (hw : w ∈ eps)
    (h : outSet k eps a w.id = true) : isOut k eps a w = true := by
  unfold outSet at h
  cases hf : findEp eps w.id with
  | none => simp [hf] at h
  | some e =>
    obtain ⟨he, hid⟩ := findEp_some hf
    have : e = w := eq_of_nodup_ids hn he hw hid
    simpa [hf, this] using h

theorem fire_newly_ejected (s : St) (hi : Inv s) (c : Cfg) (hc : s.cfg = some c) (oS oF d : List Nat)
    {x y : Ep} (hx : x ∈ s.eps) (hxe : x.ej = none) (hy : y ∈ (fire s oS oF d).1.eps) (hid : y.id = x.id)
    (hye : y.ej ≠ none) :
    y.ej = some s.now ∧
    ((∃ a, c.sr = some a ∧ isOut .sr (swapped s) a x.swap = true) ∨
     (∃ a, c.fp = some a ∧ isOut .fp (swapped s) a x.swap = true)) := by
  obtain ⟨x', hx', z, hz, rfl, hzid, js1, js2, sp, rfl⟩ := fire_mem s c hc oS oF d hy
  have hxx : x' = x := by
    apply eq_of_nodup_ids hi.nodup hx' hx
    rw [← hid, unejStep_id]; exact hzid.symm
  subst hxx
  have hnd : (idsOf (swapped s)).Nodup := by rw [idsOf_swapped]; exact hi.nodup
  have hw : x'.swap ∈ swapped s := List.mem_map_of_mem hx'
  obtain ⟨h1, _⟩ := unejStep_ej c s.now _ hye
  rw [h1] at hye ⊢
  rw [applyEj_ej] at hye ⊢
  have hswapej : x'.swap.ej = none := hxe
  split at hye
  · next hm =>
    simp only [hm, if_true, true_and]
    have hm' : x'.swap.id ∈ js1 ++ js2 := hm
    rcases List.mem_append.mp hm' with h | h
    · obtain ⟨a, ha, ho⟩ := sp.sr _ h
      exact Or.inl ⟨a, ha, outSet_isOut hnd hw ho⟩
    · obtain ⟨a, ha, ho⟩ := sp.fp _ h
      exact Or.inr ⟨a, ha, outSet_isOut hnd hw ho⟩
  · exact absurd hswapej hye

/-! ### T3: the max_ejection_percent check -/

/-- the loop states that occur while intervalTimerAlgorithm runs in a reachable state -/
inductive InFire : Loop → Prop
  | start {s : St} (hr : Reach s) (d : List Nat) : InFire { eps := swapped s, nEj := s.nEj, draws := d }
  | step {l : Loop} (h : InFire l) (k : AlgK) (a : Alg) (maxPct : Nat) (ts : Int) (out : Nat → Bool) (id : Nat)
      (hout : ∀ j, out j = true → j ∈ idsOf l.eps) : InFire (algStep k a maxPct ts out l id)

theorem inFire_inv {l : Loop} (h : InFire l) : LoopInv l := by
  induction h with
  | start hr d =>
    have hi := reach_inv hr
    exact ⟨by rw [idsOf_swapped]; exact hi.nodup, by rw [trueCount_swapped]; exact hi.cnt⟩
  | step _ k a maxPct ts out id hout ih => exact algStep_inv k a maxPct ts out _ id hout ih

theorem inFire_foldl {l : Loop} (h : InFire l) (k : AlgK) (a : Alg) (maxPct : Nat) (ts : Int) (out : Nat → Bool)
    (hout : ∀ j, out j = true → j ∈ idsOf l.eps) (order : List Nat) :
    InFire (order.foldl (algStep k a maxPct ts out) l) := by
  induction order generalizing l with
  | nil => exact h
  | cons id rest ih =>
    simp only [List.foldl_cons]
    apply ih (InFire.step h k a maxPct ts out id hout)
    intro j hj
    obtain ⟨js, hr, _⟩ := algStep_spec k a maxPct ts out l id hout
    rw [hr.eps, idsOf_map_applyEj]; exact hout j hj

/-- every loop state of both algorithm loops of a run in a reachable state is an `InFire` state -/
theorem fire_loops_inFire {s : St} (hr : Reach s) (c : Cfg) (oS oF d : List Nat) :
    (∀ a, c.sr = some a → ∀ pre, pre <+: oS →
      InFire (pre.foldl (algStep .sr a c.maxPct s.now (outSet .sr (swapped s) a)) { eps := swapped s, nEj := s.nEj, draws := d })) ∧
    (∀ a, c.fp = some a → ∀ pre, pre <+: oF →
      InFire (pre.foldl (algStep .fp a c.maxPct s.now (outSet .fp (srLoop c s oS d).eps a)) (srLoop c s oS d))) := by
  have h0 : InFire { eps := swapped s, nEj := s.nEj, draws := d } := InFire.start hr d
  have hsr : InFire (srLoop c s oS d) := by
    unfold srLoop
    cases c.sr with
    | none => exact h0
    | some a => exact inFire_foldl h0 .sr a c.maxPct s.now _ (fun _ h => outSet_mem h) oS
  constructor
  · intro a _ pre _
    exact inFire_foldl h0 .sr a c.maxPct s.now _ (fun _ h => outSet_mem h) pre
  · intro a _ pre _
    exact inFire_foldl hsr .fp a c.maxPct s.now _ (fun _ h => outSet_mem h) pre

theorem algStep_blocked (l : Loop) (hi : LoopInv l) (k : AlgK) (a : Alg) (maxPct : Nat) (ts : Int) (out : Nat → Bool) (id : Nat)
    (hout : ∀ j, out j = true → j ∈ idsOf l.eps)
    (hshare : maxPct * l.eps.length ≤ trueCount l.eps * 100) :
    (algStep k a maxPct ts out l id).eps = l.eps ∧ (algStep k a maxPct ts out l id).nEj = l.nEj := by
  obtain ⟨js, hr, hor⟩ := algStep_spec k a maxPct ts out l id hout
  rcases hor with rfl | ⟨_, _, hp⟩
  · exact ⟨by rw [hr.eps, map_applyEj_nil], by rw [hr.nEj]; simp⟩
  · exfalso
    apply hp
    rw [← hi.cnt]
    exact_mod_cast hshare

theorem fire_evs (s : St) (c : Cfg) (hc : s.cfg = some c) (oS oF d : List Nat) :
    (fire s oS oF d).2.1.evs = (algsLoop c s oS oF d).evs := by
  unfold fire
  rw [hc]
  simp only [fireCore_eq]

/-! ### T6: the un-ejection rule -/

theorem unejStep_rule (c : Cfg) (now : Int) (z : Ep) :
    ((unejStep c now z).1.ej = none ↔
      (z.ej = none ∨ ∃ ts, z.ej = some ts ∧ now > ts + min (c.base * z.mult) (max c.base c.maxEj))) := by
  unfold unejStep ejectionTime
  cases hz : z.ej with
  | none => simp only; split <;> simp [hz]
  | some ts =>
    simp only
    split
    · next hd => simp [hd]
    · next hd => simp [hz, hd]

theorem fire_unej (s : St) (c : Cfg) (hc : s.cfg = some c) (oS oF d : List Nat) {z : Ep}
    (hz : z ∈ (algsLoop c s oS oF d).eps) : (unejStep c s.now z).1 ∈ (fire s oS oF d).1.eps := by
  obtain ⟨he, _, _⟩ := fire_state s c hc oS oF d
  rw [he, unejPass_eps]
  exact List.mem_map_of_mem hz

/-- an endpoint that is ejected and is not decided upon in this run: un-ejected iff its time is up -/
theorem fire_uneject (s : St) (hi : Inv s) (c : Cfg) (hc : s.cfg = some c) (oS oF d : List Nat)
    {x y : Ep} (hx : x ∈ s.eps) (ts : Int) (hxe : x.ej = some ts)
    (hnot : x.id ∉ ejIds (fire s oS oF d).2.1.evs)
    (hy : y ∈ (fire s oS oF d).1.eps) (hid : y.id = x.id) :
    (y.ej = none ↔ s.now > ts + min (c.base * x.mult) (max c.base c.maxEj)) ∧ (y.ej ≠ none → y.ej = some ts ∧ y.mult = x.mult) := by
  obtain ⟨x', hx', z, hz, rfl, hzid, js1, js2, sp, rfl⟩ := fire_mem s c hc oS oF d hy
  have hxx : x' = x := by
    apply eq_of_nodup_ids hi.nodup hx' hx
    rw [← hid, unejStep_id]; exact hzid.symm
  subst hxx
  rw [fire_evs s c hc, sp.evs] at hnot
  have hsame : applyEj s.now (js1 ++ js2) x'.swap = x'.swap := applyEj_not_mem _ _ _ hnot
  rw [hsame]
  have hr := unejStep_rule c s.now x'.swap
  have hsw : x'.swap.ej = some ts := hxe
  have hm : x'.swap.mult = x'.mult := rfl
  constructor
  · rw [hr, hsw, hm]; simp
  · intro hne
    obtain ⟨h1, h2⟩ := unejStep_ej c s.now _ hne
    exact ⟨by rw [h1, hsw], by rw [h2, hm]⟩

/-! ### T7 (local part): what an ejected wrapper shows to the child -/

/-- while the wrapper is ejected, the child's current health listener has seen nothing or
    TRANSIENT_FAILURE -/
def ScwOK (w : Scw) : Prop := w.ejected = true → w.hl = true → (w.last = none ∨ w.last = some 3)

def AllOK (scws : List Scw) : Prop := ∀ w ∈ scws, ScwOK w

theorem updScw_ok (scws : List Scw) (serial : Nat) (f : Scw → Scw) (h : AllOK scws) (hf : ∀ w, ScwOK w → ScwOK (f w)) :
    AllOK (updScw scws serial f) := by
  intro w hw
  obtain ⟨w0, hw0, rfl⟩ := List.mem_map.mp hw
  split
  · exact hf w0 (h w0 hw0)
  · exact h w0 hw0

theorem applyCmd_ok (acc : List Scw × List Dl) (cmd : Cmd) (h : AllOK acc.1) : AllOK (applyCmd acc cmd).1 := by
  obtain ⟨scws, dl⟩ := acc
  simp only [applyCmd]
  split
  · exact h
  · split
    · apply updScw_ok _ _ _ h
      intro w _ _ hl
      have hl' : w.hl = true := hl
      right
      show (if w.hl = true then some 3 else w.last) = some 3
      simp [hl']
    · apply updScw_ok _ _ _ h
      intro w _ he
      simp at he

theorem applyCmds_ok (scws : List Scw) (cmds : List Cmd) (h : AllOK scws) : AllOK (applyCmds scws cmds).1 := by
  unfold applyCmds
  suffices hh : ∀ acc : List Scw × List Dl, AllOK acc.1 → AllOK (cmds.foldl applyCmd acc).1 from hh _ h
  induction cmds with
  | nil => intro acc h; exact h
  | cons c cs ih => intro acc h; exact ih _ (applyCmd_ok acc c h)

theorem newScw_ok (s : St) (id : Nat) (h : AllOK s.scws) : AllOK (newScw s id).scws := by
  unfold newScw
  intro w hw
  simp only [List.mem_append, List.mem_singleton] at hw
  rcases hw with hw | rfl
  · exact h w hw
  · intro _ hl; simp at hl

theorem shutScw_ok (s : St) (serial : Nat) (h : AllOK s.scws) : AllOK (shutScw s serial).1.scws := by
  unfold shutScw
  split
  · exact h
  · split
    · exact h
    · apply updScw_ok _ _ _ h
      intro w _ _ hl; simp at hl

theorem childUpdate_ok (s : St) (ids : List Nat) (h : AllOK s.scws) : AllOK (childUpdate s ids).1.scws := by
  unfold childUpdate
  have h1 : ∀ (ws : List Scw) (acc : St × List Dl), AllOK acc.1.scws →
      AllOK (ws.foldl (fun (acc : St × List Dl) w => let (s', d) := shutScw acc.1 w.serial; (s', acc.2 ++ d)) acc).1.scws := by
    intro ws
    induction ws with
    | nil => intro acc h; exact h
    | cons w ws ih =>
      intro acc h
      simp only [List.foldl_cons]
      apply ih
      exact shutScw_ok acc.1 w.serial h
  have h2 : ∀ (l : List Nat) (acc : St), AllOK acc.scws →
      AllOK (l.foldl (fun (acc : St) id => if acc.scws.any (fun w => !w.dead && w.addr = id) then acc else newScw acc id) acc).scws := by
    intro l
    induction l with
    | nil => intro acc h; exact h
    | cons id l ih =>
      intro acc h
      simp only [List.foldl_cons]
      apply ih
      split
      · exact h
      · exact newScw_ok acc id h
  simp only
  apply h2
  apply h1
  exact h

theorem update_scws_ok (s : St) (c : Cfg) (ids : List Nat) (h : AllOK s.scws) : AllOK (update s c ids).1.scws := by
  unfold update
  simp only
  have h0 : (updateCore s c ids).1.scws = s.scws := by
    unfold updateCore; simp only [onNoop]; split
    · rfl
    · split <;> rfl
  have hk := childUpdate_ok
    { (updateCore s c ids).1 with scws := (applyCmds (updateCore s c ids).1.scws (updateCore s c ids).2).1 } ids
    (applyCmds_ok _ _ (by rw [h0]; exact h))
  repeat' split
  all_goals exact hk

theorem fire_scws_ok (s : St) (oS oF d : List Nat) (h : AllOK s.scws) : AllOK (fire s oS oF d).1.scws := by
  unfold fire
  split
  · exact h
  · simp only [fireCore_eq]
    exact applyCmds_ok _ _ h

theorem step_ok (s : St) (op : Op) (h : AllOK s.scws) : AllOK (step s op).scws := by
  cases op with
  | update c ids => exact update_scws_ok s c ids h
  | fire a b c => exact fire_scws_ok s a b c h
  | calls a b c =>
    show AllOK (calls s a b c).1.scws
    unfold calls; repeat' split
    all_goals exact h
  | sc a b =>
    show AllOK (scUpdate s a b).1.scws
    unfold scUpdate; repeat' split
    all_goals first
      | exact h
      | (apply updScw_ok _ _ _ h; intro w _ _ _; left; rfl)
  | health a b =>
    show AllOK (healthUpdate s a b).1.scws
    unfold healthUpdate; repeat' split
    all_goals first
      | exact h
      | (apply updScw_ok _ _ _ h
         intro w hw
         split
         · next he => intro _ hl; exact hw he hl
         · next he => intro he'; exact absurd he' he)
  | newsc a =>
    show AllOK (childNewSc s a).1.scws
    unfold childNewSc; split
    · exact h
    · exact newScw_ok s a h
  | rmsc a =>
    show AllOK (childRmSc s a).1.scws
    unfold childRmSc; split
    · exact h
    · exact shutScw_ok s a h
  | childstate a =>
    show AllOK (childState s a).1.scws
    unfold childState; split <;> exact h
  | quiet b => exact h
  | advance d => exact h

theorem reach_ok {s : St} (h : Reach s) : AllOK s.scws := by
  induction h with
  | init => intro w hw; simp [GrpcModel.Outlier.init] at hw
  | step op _ ih => exact step_ok _ op ih

end GrpcProofs.Lemmas.Outlier
