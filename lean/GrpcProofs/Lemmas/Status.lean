import GrpcModel.Model.Status
import GrpcProofs.Lemmas.Timeout
import GrpcProofs.Lemmas.Base64
import GrpcProofs.Lemmas.StatusMsg
namespace GrpcProofs.Lemmas.Status
open GrpcModel.Status GrpcModel.Headers GrpcModel
open GrpcModel.Base64 (Bytes)

theorem digitsRev_eq (fuel n : Nat) : digitsRev fuel n = Timeout.digitsRev fuel n := by
  induction fuel generalizing n with
  | zero => rfl
  | succ f ih => unfold digitsRev Timeout.digitsRev; rw [ih]

theorem itoa_eq (n : Nat) : itoa n = Timeout.fmtNat n := by
  unfold itoa Timeout.fmtNat; rw [digitsRev_eq]

theorem isDigit_eq : isDigit = Timeout.isDigit := rfl

theorem itoa_spec (n : Nat) : (itoa n).all isDigit = true ∧ itoa n ≠ [] ∧ digitsVal (itoa n) = n := by
  have ⟨h1, h2, h3⟩ := Lemmas.Timeout.fmtNat_spec n
  rw [itoa_eq, isDigit_eq]
  refine ⟨h2, ?_, ?_⟩
  · intro h; rw [h] at h3; simp at h3
  · unfold Timeout.parseDigits at h1
    split at h1
    · simp at h1
    · rw [if_pos h2] at h1
      simpa [digitsVal] using h1

theorem digit_not_sign (c : UInt8) (h : isDigit c = true) : (c == 43) = false ∧ (c == 45) = false := by
  simp only [isDigit, Bool.and_eq_true, decide_eq_true_eq] at h
  have h1 : 48 ≤ c.toNat := UInt8.le_iff_toNat_le.mp h.1
  constructor <;> (simp only [beq_eq_false_iff_ne, ne_eq]; intro e; subst e; simp at h1)

theorem parseInt32_digits (x : UInt8) (rest : Bytes) (h1 : (x :: rest).all isDigit = true) :
    parseInt32 (x :: rest) = if digitsVal (x :: rest) > 2147483647 then .rangeErr else .ok (digitsVal (x :: rest)) := by
  have hx : isDigit x = true := by simp only [List.all_cons, Bool.and_eq_true] at h1; exact h1.1
  have ⟨s1, s2⟩ := digit_not_sign x hx
  unfold parseInt32
  simp only [s1, s2, Bool.or_self, Bool.false_eq_true, if_false, h1, List.isEmpty_cons, Bool.not_true]

/-- Itoa / ParseInt(…,10,32) round trip exactly for codes below 2^31. -/
theorem parseInt32_itoa (c : Nat) (h : c < 2147483648) : parseInt32 (itoa c) = .ok c := by
  have ⟨h1, h2, h3⟩ := itoa_spec c
  generalize itoa c = s at h1 h2 h3
  match s with
  | [] => exact absurd rfl h2
  | x :: rest =>
    rw [parseInt32_digits x rest h1, h3, if_neg (by omega)]

theorem parseInt32_itoa_big (c : Nat) (h : 2147483648 ≤ c) : parseInt32 (itoa c) = .rangeErr := by
  have ⟨h1, h2, h3⟩ := itoa_spec c
  generalize itoa c = s at h1 h2 h3
  match s with
  | [] => exact absurd rfl h2
  | x :: rest =>
    rw [parseInt32_digits x rest h1, h3, if_pos (by omega)]

theorem codeOfInt_nat (c : Nat) (h : c < 4294967296) : codeOfInt (c : Int) = c := by
  unfold codeOfInt; omega

theorem res_ct : isReservedHeader hContentType = true := by decide
theorem res_enc : isReservedHeader hGrpcEncoding = true := by decide
theorem res_st : isReservedHeader hStatus = true := by decide
theorem res_msg : isReservedHeader hMessage = true := by decide
theorem res_http : isReservedHeader hHttpStatus = true := by decide
theorem res_dbin : isReservedHeader hDetailsBin = false := by decide
theorem bin_dbin : isBinKey hDetailsBin = true := by decide

theorem decode_encode_md (k v : Bytes) : decodeMetadataHeader k (encodeMetadataHeader k v) = some v := by
  unfold decodeMetadataHeader encodeMetadataHeader
  split
  · exact Lemmas.Base64.decodeBinHeader_encodeBinHeader v
  · rfl

/-- A field made from a non-reserved metadata key only appends to `mdata`. -/
theorem scan_md_field (sc : Scan) (k v : Bytes) (hk : isReservedHeader k = false) (he : sc.early = none) :
    scanField sc (k, encodeMetadataHeader k v) = { sc with mdata := mdAppend sc.mdata k v } := by
  have n1 : k ≠ hContentType := fun e => by rw [e, res_ct] at hk; cases hk
  have n2 : k ≠ hGrpcEncoding := fun e => by rw [e, res_enc] at hk; cases hk
  have n3 : k ≠ hStatus := fun e => by rw [e, res_st] at hk; cases hk
  have n4 : k ≠ hMessage := fun e => by rw [e, res_msg] at hk; cases hk
  have n5 : k ≠ hHttpStatus := fun e => by rw [e, res_http] at hk; cases hk
  unfold scanField
  simp only [he, Option.isSome_none, Bool.false_eq_true, if_false, n1, n2, n3, n4, n5, hk, Bool.false_and, decode_encode_md]

theorem mdGet_mdAppend (md : MD) (k v key : Bytes) :
    mdGet (mdAppend md k v) key = if k = key then mdGet md key ++ [v] else mdGet md key := by
  induction md with
  | nil =>
    simp only [mdAppend, mdGet]
    split <;> simp_all
  | cons kv rest ih =>
    obtain ⟨k', vs⟩ := kv
    simp only [mdAppend]
    by_cases h1 : k' = k
    · subst h1
      simp only [if_true, mdGet]
      by_cases h2 : k' = key
      · simp [h2]
      · simp [h2]
    · simp only [h1, if_false, mdGet]
      by_cases h2 : k' = key
      · subst h2
        simp [Ne.symm h1]
      · simp only [h2, if_false, ih]

/-- Folding the client's field switch over fields that all come from non-reserved metadata keys
    changes nothing but `mdata`, and leaves every key not among them untouched. -/
theorem fold_vals (k : Bytes) (hk : isReservedHeader k = false) (vs : List Bytes) (sc : Scan) (he : sc.early = none) :
    ∃ md', (vs.map fun v => (k, encodeMetadataHeader k v)).foldl scanField sc = { sc with mdata := md' } ∧
      ∀ key, k ≠ key → mdGet md' key = mdGet sc.mdata key := by
  induction vs generalizing sc with
  | nil => exact ⟨sc.mdata, rfl, fun _ _ => rfl⟩
  | cons v t ih =>
    simp only [List.map_cons, List.foldl_cons, scan_md_field sc k v hk he]
    obtain ⟨md', h1, h2⟩ := ih { sc with mdata := mdAppend sc.mdata k v } he
    refine ⟨md', h1, fun key hne => ?_⟩
    rw [h2 key hne, mdGet_mdAppend, if_neg hne]

theorem fold_md (tr : MD) (sc : Scan) (he : sc.early = none) :
    ∃ md', (fieldsFromMD tr).foldl scanField sc = { sc with mdata := md' } ∧
      ∀ key, (∀ kv ∈ tr, kv.1 ≠ key) → mdGet md' key = mdGet sc.mdata key := by
  induction tr generalizing sc with
  | nil => exact ⟨sc.mdata, rfl, fun _ _ => rfl⟩
  | cons kv rest ih =>
    simp only [fieldsFromMD, List.flatMap_cons, List.foldl_append]
    by_cases hr : isReservedHeader kv.1 = true
    · simp only [hr, if_true, List.foldl_nil]
      obtain ⟨md', h1, h2⟩ := ih sc he
      exact ⟨md', h1, fun key hk => h2 key (fun x hx => hk x (by simp [hx]))⟩
    · simp only [Bool.not_eq_true] at hr
      simp only [hr, Bool.false_eq_true, if_false]
      obtain ⟨md1, e1, g1⟩ := fold_vals kv.1 hr kv.2 sc he
      rw [e1]
      obtain ⟨md', h1, h2⟩ := ih { sc with mdata := md1 } he
      refine ⟨md', h1, fun key hk => ?_⟩
      rw [h2 key (fun x hx => hk x (by simp [hx])), g1 key (hk kv (by simp))]


theorem base_eq : asciiBytes "application/grpc" = [97, 112, 112, 108, 105, 99, 97, 116, 105, 111, 110, 47, 103, 114, 112, 99] := by decide
theorem plus_eq : asciiBytes "application/grpc+" = [97, 112, 112, 108, 105, 99, 97, 116, 105, 111, 110, 47, 103, 114, 112, 99, 43] := by decide

theorem validContentType_contentTypeOf (sub : Bytes) : validContentType (contentTypeOf sub) = true := by
  unfold validContentType contentTypeOf
  split
  · simp [base_eq]
  · simp [base_eq, plus_eq]

theorem n_st_ct : hStatus ≠ hContentType := by decide
theorem n_st_enc : hStatus ≠ hGrpcEncoding := by decide
theorem n_msg_ct : hMessage ≠ hContentType := by decide
theorem n_msg_enc : hMessage ≠ hGrpcEncoding := by decide
theorem n_msg_st : hMessage ≠ hStatus := by decide
theorem n_http_ct : hHttpStatus ≠ hContentType := by decide
theorem n_http_enc : hHttpStatus ≠ hGrpcEncoding := by decide
theorem n_http_st : hHttpStatus ≠ hStatus := by decide
theorem n_http_msg : hHttpStatus ≠ hMessage := by decide
theorem n_ct_dbin : hContentType ≠ hDetailsBin := by decide

/-- The client state after the fields `writeStatus` itself puts in front of the metadata. -/
theorem prefix_scan (hs : Bool) (sub : Bytes) (c : Nat) (hc : c < 2147483648) (m : Bytes) :
    ∃ md0, ((if hs then [] else [(hHttpStatus, asciiBytes "200"), (hContentType, contentTypeOf sub)]) ++
        [(hStatus, itoa c), (hMessage, StatusMsg.encode m)]).foldl scanField { isGRPC := !(!hs) } =
      { isGRPC := true, mdata := md0, grpcMessage := StatusMsg.sanitize m, code := c } ∧ mdGet md0 hDetailsBin = [] := by
  cases hs
  · refine ⟨[(hContentType, [contentTypeOf sub])], ?_, ?_⟩
    · simp [scanField, n_st_ct, n_st_enc, n_msg_ct, n_msg_enc, n_msg_st, n_http_ct, n_http_enc, n_http_st, n_http_msg,
        validContentType_contentTypeOf, parseInt32_itoa c hc, codeOfInt_nat c (by omega), Lemmas.StatusMsg.decode_encode, mdAppend]
    · simp [mdGet, n_ct_dbin]
  · refine ⟨[], ?_, rfl⟩
    simp [scanField, n_st_ct, n_st_enc, n_msg_ct, n_msg_enc, n_msg_st,
        parseInt32_itoa c hc, codeOfInt_nat c (by omega), Lemmas.StatusMsg.decode_encode]


theorem mdDelete_keys (tr : MD) (k : Bytes) : ∀ kv ∈ mdDelete tr k, kv.1 ≠ k := by
  intro kv h
  simp only [mdDelete, List.mem_filter, decide_eq_true_eq] at h
  exact h.2

theorem endToEnd_roundtrip (hs : Bool) (sub : Bytes) (st : Status) (tr : MD)
    (hc : st.code < 2147483648)
    (hv : st.details ≠ [] → StatusMsg.validUtf8 st.msg = true ∧ ∀ a ∈ st.details, StatusMsg.validUtf8 a.typeUrl = true)
    (hp : st.details ≠ [] → unmarshal (marshalBody st) = some st)
    (hu : st.details = [] → ∀ kv ∈ tr, kv.1 ≠ hDetailsBin) :
    endToEnd hs sub (.status st) tr = .status ⟨st.code, StatusMsg.sanitize st.msg, st.details⟩ := by
  obtain ⟨md0, hpre, hget0⟩ := prefix_scan hs sub st.code hc st.msg
  unfold endToEnd clientTrailers writeStatus appStatus
  simp only [Bool.not_not]
  by_cases hd : st.details = []
  · simp only [hd, List.isEmpty_nil, if_true, appendHeaderFieldsFromMD, List.foldl_append]
    simp only [Bool.not_not, List.foldl_append] at hpre
    rw [hpre]
    obtain ⟨md', e1, g1⟩ := fold_md tr { isGRPC := true, mdata := md0, grpcMessage := StatusMsg.sanitize st.msg, code := st.code } rfl
    rw [e1]
    simp only [Bool.not_true, Bool.false_eq_true, if_false]
    rw [g1 hDetailsBin (hu hd), hget0]
    simp [newWithProto]
  · have hne : st.details.isEmpty = false := by cases h : st.details <;> simp_all
    obtain ⟨v1, v2⟩ := hv hd
    have hm : marshal st = some (marshalBody st) := by
      unfold marshal
      have : st.details.all (fun a => StatusMsg.validUtf8 a.typeUrl) = true := by
        rw [List.all_eq_true]; exact v2
      simp [v1, this]
    simp only [hne, Bool.false_eq_true, if_false, hm, appendHeaderFieldsFromMD, List.foldl_append]
    simp only [Bool.not_not, List.foldl_append] at hpre
    rw [hpre]
    have efield : (hDetailsBin, Base64.encodeBinHeader (marshalBody st)) = (hDetailsBin, encodeMetadataHeader hDetailsBin (marshalBody st)) := by
      simp [encodeMetadataHeader, bin_dbin]
    simp only [List.foldl_cons, List.foldl_nil, efield]
    rw [scan_md_field _ _ _ res_dbin rfl]
    obtain ⟨md', e1, g1⟩ := fold_md (mdDelete tr hDetailsBin) { isGRPC := true, mdata := mdAppend md0 hDetailsBin (marshalBody st), grpcMessage := StatusMsg.sanitize st.msg, code := st.code } rfl
    rw [e1]
    simp only [Bool.not_true, Bool.false_eq_true, if_false]
    rw [g1 hDetailsBin (mdDelete_keys tr hDetailsBin), mdGet_mdAppend, if_pos rfl, hget0]
    simp only [List.nil_append, newWithProto, hp hd, if_true]
    rw [Lemmas.StatusMsg.sanitize_valid _ v1]



/-- Invariant of the client's field loop once the server's grpc-status field is (going to be) the
    only one: an early exit is never OK, and without one the parsed code is the one sent. -/
def Good (c : Nat) (sc : Scan) : Prop :=
  (∀ e, sc.early = some e → e.code ≠ 0) ∧ (sc.early = none → sc.code = c)

theorem scan_keeps (c : Nat) (sc : Scan) (hf : Field) (h : hf.1 ≠ hStatus) (g : Good c sc) : Good c (scanField sc hf) := by
  obtain ⟨name, value⟩ := hf
  simp only at h
  unfold scanField
  by_cases he : sc.early.isSome = true
  · simp only [he, if_true]; exact g
  · simp only [he, Bool.false_eq_true, if_false, h]
    have hn : sc.early = none := by cases h' : sc.early <;> simp_all
    repeat' split
    all_goals (first | exact g | (refine ⟨fun e he' => ?_, fun _ => ?_⟩ <;> simp_all [Good]))

theorem fold_keeps (c : Nat) (fields : List Field) (h : ∀ f ∈ fields, f.1 ≠ hStatus) (sc : Scan) (g : Good c sc) :
    Good c (fields.foldl scanField sc) := by
  induction fields generalizing sc with
  | nil => exact g
  | cons f t ih =>
    simp only [List.foldl_cons]
    exact ih (fun x hx => h x (by simp [hx])) _ (scan_keeps c sc f (h f (by simp)) g)

theorem fieldsFromMD_names (tr : MD) : ∀ f ∈ fieldsFromMD tr, isReservedHeader f.1 = false := by
  intro f hf
  simp only [fieldsFromMD, List.mem_flatMap] at hf
  obtain ⟨kv, _, h2⟩ := hf
  by_cases hr : isReservedHeader kv.1 = true
  · simp [hr] at h2
  · simp only [Bool.not_eq_true] at hr
    simp only [hr, Bool.false_eq_true, if_false, List.mem_map] at h2
    obtain ⟨v, _, rfl⟩ := h2
    exact hr

theorem fieldsFromMD_notStatus (tr : MD) : ∀ f ∈ fieldsFromMD tr, f.1 ≠ hStatus := by
  intro f hf e
  have := fieldsFromMD_names tr f hf
  rw [e, res_st] at this; cases this

theorem status_field_good (c : Nat) (sc : Scan) (he : sc.early = none) : Good c (scanField sc (hStatus, itoa c)) := by
  unfold scanField
  simp only [he, Option.isSome_none, Bool.false_eq_true, if_false, n_st_ct, n_st_enc]
  by_cases hb : c < 2147483648
  · simp only [parseInt32_itoa c hb, if_true]
    exact ⟨fun e h => by simp at h, fun _ => codeOfInt_nat c (by omega)⟩
  · simp only [parseInt32_itoa_big c (by omega), if_true]
    exact ⟨fun e h => by simp at h; subst h; simp [ClientEnd.code], fun h => by simp at h⟩

theorem newWithProto_code (c : Nat) (m : Bytes) (l : List Bytes) (hc : c ≠ 0) : (newWithProto c m l).code ≠ 0 := by
  unfold newWithProto
  repeat' split
  all_goals simp_all [ClientEnd.code]


def preFields (hs : Bool) (sub : Bytes) : List Field :=
  if hs then [] else [(hHttpStatus, asciiBytes "200"), (hContentType, contentTypeOf sub)]

theorem n_msg_st' : hMessage ≠ hStatus := by decide
theorem n_dbin_st : hDetailsBin ≠ hStatus := by decide
theorem n_http_st' : hHttpStatus ≠ hStatus := by decide
theorem n_ct_st : hContentType ≠ hStatus := by decide

theorem writeStatus_shape (hs : Bool) (sub : Bytes) (st : Status) (tr : MD) :
    ∃ X, writeStatus hs sub st tr = preFields hs sub ++ (hStatus, itoa st.code) :: X ∧ ∀ f ∈ X, f.1 ≠ hStatus := by
  unfold writeStatus preFields appendHeaderFieldsFromMD
  simp only
  split
  · refine ⟨(hMessage, StatusMsg.encode st.msg) :: fieldsFromMD tr, by simp, ?_⟩
    intro f hf
    rcases List.mem_cons.mp hf with rfl | hf
    · exact n_msg_st'
    · exact fieldsFromMD_notStatus _ f hf
  · split
    · rename_i b _
      refine ⟨(hMessage, StatusMsg.encode st.msg) :: (hDetailsBin, Base64.encodeBinHeader b) :: fieldsFromMD (mdDelete tr hDetailsBin), by simp, ?_⟩
      intro f hf
      rcases List.mem_cons.mp hf with rfl | hf
      · exact n_msg_st'
      · rcases List.mem_cons.mp hf with rfl | hf
        · exact n_dbin_st
        · exact fieldsFromMD_notStatus _ f hf
    · refine ⟨(hMessage, StatusMsg.encode st.msg) :: fieldsFromMD (mdDelete tr hDetailsBin), by simp, ?_⟩
      intro f hf
      rcases List.mem_cons.mp hf with rfl | hf
      · exact n_msg_st'
      · exact fieldsFromMD_notStatus _ f hf

theorem pre_early (hs : Bool) (sub : Bytes) (sc : Scan) (he : sc.early = none) :
    ((preFields hs sub).foldl scanField sc).early = none := by
  unfold preFields
  cases hs
  · simp only [Bool.false_eq_true, if_false, List.foldl_cons, List.foldl_nil]
    simp only [scanField, he, Option.isSome_none, Bool.false_eq_true, if_false, n_http_ct, n_http_enc, n_http_st, n_http_msg, if_true]
    split <;> simp [he]
  · simpa using he

/-- A non-OK status never becomes a nil error — for every status, message, detail list, trailer
    metadata (including a handler-supplied grpc-status-details-bin), on both response shapes. -/
theorem nonok_never_nil (hs : Bool) (sub : Bytes) (st : Status) (tr : MD) (hc : st.code ≠ 0) :
    (endToEnd hs sub (.status st) tr).isNil = false := by
  obtain ⟨X, hshape, hX⟩ := writeStatus_shape hs sub st tr
  unfold endToEnd clientTrailers appStatus
  simp only
  rw [hshape, List.foldl_append, List.foldl_cons]
  have h0 := pre_early hs sub { isGRPC := !(!hs) } rfl
  have g1 := status_field_good st.code _ h0
  have g2 := fold_keeps st.code X hX _ g1
  generalize List.foldl scanField _ X = fin at g2
  obtain ⟨ga, gb⟩ := g2
  cases hearly : fin.early with
  | some e => simp only; have := ga e hearly; simp [ClientEnd.isNil, this]
  | none =>
    simp only
    split
    · simp [ClientEnd.isNil, ClientEnd.code]
    · split
      · simp [ClientEnd.isNil, ClientEnd.code]
      · rw [gb hearly]
        have := newWithProto_code st.code fin.grpcMessage (mdGet fin.mdata hDetailsBin) hc
        simp [ClientEnd.isNil, this]


theorem fold_early (X : List Field) (sc : Scan) (he : sc.early.isSome = true) : X.foldl scanField sc = sc := by
  induction X with
  | nil => rfl
  | cons f t ih =>
    have : scanField sc f = sc := by unfold scanField; simp [he]
    simp only [List.foldl_cons, this, ih]

/-- F11 in general: every code ≥ 2^31 ends as UNKNOWN "malformed grpc-status … out of range". -/
theorem code_ge_2p31_malformed (hs : Bool) (sub : Bytes) (st : Status) (tr : MD) (hc : 2147483648 ≤ st.code) :
    endToEnd hs sub (.status st) tr = .malformedStatus true (itoa st.code) := by
  obtain ⟨X, hshape, _⟩ := writeStatus_shape hs sub st tr
  unfold endToEnd clientTrailers appStatus
  simp only
  rw [hshape, List.foldl_append, List.foldl_cons]
  have h0 := pre_early hs sub { isGRPC := !(!hs) } rfl
  generalize List.foldl scanField _ (preFields hs sub) = s1 at h0
  have e1 : scanField s1 (hStatus, itoa st.code) = { s1 with early := some (.malformedStatus true (itoa st.code)) } := by
    unfold scanField
    simp only [h0, Option.isSome_none, Bool.false_eq_true, if_false, n_st_ct, n_st_enc, parseInt32_itoa_big st.code hc, if_true]
  rw [e1, fold_early X _ rfl]

/-- F19 in general: when the proto cannot be marshalled (message or a type_url is not valid
    UTF-8) the frame is the one of the same status without details. -/
theorem writeStatus_marshal_fails (hs : Bool) (sub : Bytes) (st : Status) (tr : MD) (hd : st.details ≠ [])
    (hm : marshal st = none) :
    writeStatus hs sub st tr = writeStatus hs sub ⟨st.code, st.msg, []⟩ (mdDelete tr hDetailsBin) := by
  have hne : st.details.isEmpty = false := by cases h : st.details <;> simp_all
  unfold writeStatus
  simp [hne, hm]


end GrpcProofs.Lemmas.Status
